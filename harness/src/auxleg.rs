//! Auxiliary sanitizer workloads (DESIGN.md section 6): small, self-contained runs of the
//! same oracles that can execute under Miri (`cargo +nightly miri run -- __aux ...`) or
//! valgrind memcheck.  They never touch the LD_PRELOAD shim, fork or the tracer.
//!
//!   __aux c05 <seed> <nops>     lock-step conformance with tiny payloads (real files)
//!   __aux c07 <seed> <n>        in-memory writer->reader round trips at block edges
//!   __aux c10 <seed> <n>        hostile bytes through the in-memory reader and through open()

use std::panic::{catch_unwind, AssertUnwindSafe};

use crate::gen::{Gen, GenCfg, Profile};
use crate::ops::{Model, Policy, Snapshot, Sut};
use crate::util::{Rng, Scratch};

pub fn run(args: &[String]) -> i32 {
    let what = args.first().map(|s| s.as_str()).unwrap_or("");
    let seed: u64 = args.get(1).and_then(|s| s.parse().ok()).unwrap_or(1);
    let n: usize = args.get(2).and_then(|s| s.parse().ok()).unwrap_or(100);
    let r = match what {
        "c05" => c05(seed, n),
        #[cfg(feature = "small")]
        "c07" => crate::monitors::c07::aux_round_trips(seed, n),
        "c10" => c10(seed, n),
        _ => Err(format!("unknown aux workload {:?}", what)),
    };
    match r {
        Ok(msg) => {
            println!("AUX-OK {} seed={} {}", what, seed, msg);
            0
        }
        Err(e) => {
            println!("AUX-FAIL {} seed={} {}", what, seed, e);
            1
        }
    }
}

fn c05(seed: u64, nops: usize) -> Result<String, String> {
    let scratch = Scratch::new("aux-c05");
    let dir = scratch.sub("log");
    let mut sut = Sut::open(&dir, Policy::AlwaysFlush, seed, false).map_err(|e| format!("open: {:?}", e))?;
    let mut cfg = GenCfg::new(Profile::Dense, 3, 131_072);
    cfg.restart_pm = 30;
    cfg.bad_pm = 100;
    let mut gen = Gen::new(&[0xA0C5, seed], cfg);
    let mut model = Model::new(seed);
    let mut restarts = 0;
    for k in 0..nops {
        let op = gen.next_op(None);
        let want = model.apply(k, &op);
        let got = sut.apply(k, &op);
        if matches!(op, crate::ops::Op::Restart) {
            restarts += 1;
        }
        if got.logical() != want {
            return Err(format!("op {} {:?}: observed {:?}, specified {:?}", k, op, got, want));
        }
        let snap = Snapshot::take(sut.log())?;
        if let Some(d) = model.snapshot().diff(&snap) {
            return Err(format!("state after op {} {:?}: {}", k, op, d));
        }
    }
    Ok(format!("ops={} restarts={} queues={}", nops, restarts, model.queues.len()))
}

fn c10(seed: u64, n: usize) -> Result<String, String> {
    let scratch = Scratch::new("aux-c10");
    let dir = scratch.sub("log");
    let mut rng = Rng::from_parts(&[0xA010, seed]);
    let mut ok = 0;
    let mut err = 0;
    for i in 0..n {
        crate::util::clear_dir(&dir);
        // one or two blocks of crafted CRC-valid or random content (small: Miri is slow)
        let (files, _) = if rng.chance(2, 3) { crate::damage::crafted_stream(&mut rng, 32_768 * 2) } else {
            let mut d = vec![0u8; 32_768];
            let upto = rng.usize(64, 4096);
            rng.fill(&mut d[..upto]);
            (vec![d], serde_json::Value::Null)
        };
        for (j, f) in files.iter().take(2).enumerate() {
            std::fs::write(dir.join(format!("wal-{:020}", j)), f).map_err(|e| e.to_string())?;
        }
        let r = catch_unwind(AssertUnwindSafe(|| {
            mrecordlog::MultiRecordLog::open(&dir).map(|log| {
                let names: Vec<String> = log.list_queues().map(|s| s.to_string()).collect();
                let mut n = 0usize;
                for q in &names {
                    if let Ok(it) = log.range(q, ..) {
                        n += it.count();
                    }
                    let _ = log.last_record(q);
                }
                n
            })
        }));
        match r {
            Ok(Ok(_)) => ok += 1,
            Ok(Err(_)) => err += 1,
            Err(_) => {
                // known findings of C10 (overflow panics in dev-profile builds) also show here
                if cfg!(debug_assertions) {
                    err += 1;
                } else {
                    return Err(format!("image {} panicked", i));
                }
            }
        }
    }
    Ok(format!("images={} open_ok={} open_err_or_known_dev_panic={}", n, ok, err))
}
