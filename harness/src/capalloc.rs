//! Counting global allocator with an optional cap (used by C10's sacrificial children to
//! turn "allocates without bound" into a distinctive exit code instead of an OOM kill).

use std::alloc::{GlobalAlloc, Layout, System};
use std::sync::atomic::{AtomicUsize, Ordering};

pub struct CapAlloc;

static LIMIT: AtomicUsize = AtomicUsize::new(0);
static LIVE: AtomicUsize = AtomicUsize::new(0);
static PEAK: AtomicUsize = AtomicUsize::new(0);

pub fn set_limit(bytes: usize) {
    LIMIT.store(bytes, Ordering::Relaxed);
}
pub fn live() -> usize {
    LIVE.load(Ordering::Relaxed)
}
pub fn peak() -> usize {
    PEAK.load(Ordering::Relaxed)
}
pub fn reset_peak() {
    PEAK.store(LIVE.load(Ordering::Relaxed), Ordering::Relaxed);
}

#[cold]
fn cap_hit(size: usize) -> ! {
    let msg = b"capalloc: allocation cap exceeded\n";
    unsafe {
        libc::write(2, msg.as_ptr() as *const libc::c_void, msg.len());
        let _ = size;
        libc::_exit(98);
    }
}

#[inline]
fn account(size: usize) {
    let lim = LIMIT.load(Ordering::Relaxed);
    let now = LIVE.fetch_add(size, Ordering::Relaxed) + size;
    if lim != 0 && (size > lim || now > lim) {
        cap_hit(size);
    }
    if now > PEAK.load(Ordering::Relaxed) {
        PEAK.store(now, Ordering::Relaxed);
    }
}

unsafe impl GlobalAlloc for CapAlloc {
    unsafe fn alloc(&self, l: Layout) -> *mut u8 {
        account(l.size());
        System.alloc(l)
    }
    unsafe fn dealloc(&self, p: *mut u8, l: Layout) {
        LIVE.fetch_sub(l.size(), Ordering::Relaxed);
        System.dealloc(p, l)
    }
    unsafe fn alloc_zeroed(&self, l: Layout) -> *mut u8 {
        account(l.size());
        System.alloc_zeroed(l)
    }
    unsafe fn realloc(&self, p: *mut u8, l: Layout, new_size: usize) -> *mut u8 {
        if new_size > l.size() {
            account(new_size - l.size());
        } else {
            LIVE.fetch_sub(l.size() - new_size, Ordering::Relaxed);
        }
        System.realloc(p, l, new_size)
    }
}
