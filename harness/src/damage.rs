//! Damage operators over directory images (DESIGN.md 4/C08, C09, C10).

use serde_json::{json, Value};

use crate::image::{Extra, Image};
use crate::layout::{self, Frame, BLOCK, HDR};
use crate::util::Rng;

/// All frames of all WAL files of an image, in stream order: (file name, frame).
pub fn all_frames(img: &Image) -> Vec<(String, Frame)> {
    let mut out = Vec::new();
    for (n, d) in &img.files {
        for f in layout::parse_frames(d) {
            out.push((n.clone(), f));
        }
    }
    out
}

fn pick_file(img: &Image, rng: &mut Rng) -> Option<String> {
    let names: Vec<&String> = img.files.iter().filter(|(_, d)| !d.is_empty()).map(|(n, _)| n).collect();
    if names.is_empty() {
        None
    } else {
        Some((*rng.pick(&names)).clone())
    }
}

/// Highest offset (exclusive) that holds written data in a file: end of its last frame,
/// rounded up a little so that damage also lands just behind the data.
fn used_extent(data: &[u8]) -> usize {
    let frames = layout::parse_frames(data);
    frames.last().map(|f| (f.end() + 64).min(data.len())).unwrap_or(data.len().min(256))
}

/// Overwrite `data[start..end_of_block]` with a gap-free chain of syntactically valid EMPTY
/// frames (random checksum bytes, length 0, the given frame type); the < 7 trailing bytes of
/// the block are zeroed (padding).  A reader that verifies checksums rejects every one of
/// them; one that exempts empty frames walks the chain without ever reporting corruption.
pub fn empty_frame_chain_to_block_end(data: &mut [u8], start: usize, ftype: u8, rng: &mut Rng) -> usize {
    let block_end = ((start / BLOCK) + 1) * BLOCK;
    let end = block_end.min(data.len());
    let mut o = start;
    let mut n = 0;
    while o + HDR <= end {
        let mut crc = [0u8; 4];
        rng.fill(&mut crc);
        data[o..o + 4].copy_from_slice(&crc);
        data[o + 4] = 0;
        data[o + 5] = 0;
        data[o + 6] = ftype;
        o += HDR;
        n += 1;
    }
    for b in &mut data[o..end] {
        *b = 0;
    }
    n
}

/// One in-place overwrite (file length unchanged).  Returns its description.
pub fn inplace_damage(img: &mut Image, frames: &[(String, Frame)], rng: &mut Rng) -> Option<Value> {
    let kind = rng.below(14);
    if kind == 13 && !frames.is_empty() {
        // the length field of a frame rewritten so that it ends exactly where a complete frame
        // EMBEDDED in the payload begins (the reader's cursor then lands on that frame)
        let ef = crate::ops::embedded_frame();
        let cands: Vec<(String, Frame, usize)> = frames
            .iter()
            .filter(|(_, f)| f.len >= ef.len() + 48)
            .filter_map(|(n, f)| {
                let data = img.files.get(n)?;
                if f.end() > data.len() {
                    return None; // the file was shortened by an earlier (structural) damage
                }
                let p = &data[f.payload_off()..f.end()];
                // search the frame payload for the embedded frame
                p.windows(ef.len()).position(|w| w == &ef[..]).map(|o| (n.clone(), f.clone(), o))
            })
            .take(64)
            .collect();
        if cands.is_empty() {
            return None;
        }
        let (name, f, o) = rng.pick(&cands).clone();
        let data = img.files.get_mut(&name)?;
        if f.off + 6 > data.len() {
            return None;
        }
        let nl = (o as u16).to_le_bytes();
        data[f.off + 4] = nl[0];
        data[f.off + 5] = nl[1];
        return Some(json!({"aimed_at": "len-pointing-at-embedded-frame", "frame_type": f.ftype, "file": name, "offset": f.off + 4, "len": 2, "new_length": o, "old_length": f.len}));
    }
    if kind == 12 && !frames.is_empty() {
        // chain of empty frames from a frame start (preferably one at a block start) to the
        // end of its block
        let at_block_start: Vec<&(String, Frame)> = frames.iter().filter(|(_, f)| f.off % BLOCK == 0 && f.off > 0).collect();
        let (name, f) = if !at_block_start.is_empty() && rng.chance(3, 4) { (*rng.pick(&at_block_start)).clone() } else { rng.pick(frames).clone() };
        let data = img.files.get_mut(&name)?;
        if f.off + HDR > data.len() {
            return None;
        }
        let ftype = if rng.chance(2, 3) { 3 } else { rng.range(1, 4) as u8 };
        let n = empty_frame_chain_to_block_end(data, f.off, ftype, rng);
        return Some(json!({"kind": "empty-frame-chain-to-block-end", "file": name, "from_offset": f.off, "frames_forged": n, "forged_type": ftype}));
    }
    // aimed variants need a frame
    if kind >= 6 && !frames.is_empty() {
        let (name, f) = rng.pick(frames).clone();
        let data = img.files.get_mut(&name)?;
        if f.end() > data.len() {
            return None;
        }
        let (what, off, len): (&str, usize, usize) = match kind {
            6 => ("crc", f.off, 4),
            7 => ("len", f.off + 4, 2),
            8 => ("type", f.off + 6, 1),
            9 => {
                // around the block boundary next to this frame
                let b = (f.off / BLOCK + 1) * BLOCK;
                if b + 16 <= data.len() && rng.chance(1, 2) {
                    ("after-block-edge", b, 16)
                } else {
                    ("before-block-edge", b.saturating_sub(16).max(f.off), 16.min(b - b.saturating_sub(16).max(f.off)))
                }
            }
            10 => ("payload", f.payload_off(), f.len),
            _ => ("whole-frame", f.off, HDR + f.len),
        };
        if len == 0 || off + len > data.len() {
            return None;
        }
        if what == "type" && rng.chance(1, 2) {
            // re-type the frame as another VALID frame type
            let old = data[off];
            let mut new = rng.range(1, 4) as u8;
            if new == old {
                new = 1 + (old % 4);
            }
            data[off] = new;
            return Some(json!({"aimed_at": "type", "frame_type": f.ftype, "file": name, "offset": off, "len": 1, "mode": format!("retyped-{}-to-{}", old, new)}));
        }
        let mode = rng.below(3);
        let (o, l) = if mode == 0 { (off + rng.usize(0, len - 1), 1) } else { (off, len) };
        match mode {
            0 => data[o] ^= 1u8 << rng.below(8),
            1 => rng.fill(&mut data[o..o + l]),
            _ => data[o..o + l].iter_mut().for_each(|b| *b = 0),
        }
        let mode_name = ["bitflip", "garbage", "zero"][mode as usize];
        return Some(json!({"aimed_at": what, "frame_type": f.ftype, "file": name, "offset": o, "len": l, "mode": mode_name}));
    }
    let name = pick_file(img, rng)?;
    let data = img.files.get_mut(&name)?;
    let extent = used_extent(data).max(1);
    match kind % 6 {
        0 => {
            let o = rng.usize(0, extent - 1);
            data[o] ^= 1u8 << rng.below(8);
            Some(json!({"kind": "bitflip", "file": name, "offset": o}))
        }
        1 => {
            let l = rng.usize(1, 64).min(extent);
            let o = rng.usize(0, extent - l);
            rng.fill(&mut data[o..o + l]);
            Some(json!({"kind": "garbage", "file": name, "offset": o, "len": l}))
        }
        2 => {
            let l = rng.usize(1, 4096).min(extent);
            let o = rng.usize(0, extent - l);
            data[o..o + l].iter_mut().for_each(|b| *b = 0);
            Some(json!({"kind": "zero-fill", "file": name, "offset": o, "len": l}))
        }
        3 => {
            let nb = data.len() / BLOCK;
            if nb == 0 {
                return None;
            }
            let b = rng.usize(0, nb - 1);
            rng.fill(&mut data[b * BLOCK..(b + 1) * BLOCK]);
            Some(json!({"kind": "block-garbage", "file": name, "block": b}))
        }
        4 => {
            let l = rng.usize(BLOCK / 2, 3 * BLOCK).min(data.len());
            let o = rng.usize(0, data.len() - l);
            if rng.chance(1, 2) {
                rng.fill(&mut data[o..o + l]);
            } else {
                data[o..o + l].iter_mut().for_each(|b| *b = 0);
            }
            Some(json!({"kind": "multi-block-range", "file": name, "offset": o, "len": l}))
        }
        _ => {
            // copy a chunk of valid data over another place (stale / transposed bytes)
            let l = rng.usize(8, 20_000).min(extent);
            let src = rng.usize(0, extent - l);
            let dst = rng.usize(0, data.len() - l);
            let chunk = data[src..src + l].to_vec();
            data[dst..dst + l].copy_from_slice(&chunk);
            Some(json!({"kind": "copy-chunk", "file": name, "from": src, "to": dst, "len": l}))
        }
    }
}

fn wal_name(n: u64) -> String {
    format!("wal-{:020}", n)
}

fn wal_num(name: &str) -> Option<u64> {
    if name.len() == 24 && name.starts_with("wal-") {
        name[4..].parse().ok()
    } else {
        None
    }
}

/// One structural damage operation (lengths / file set may change).
pub fn structural_damage(img: &mut Image, rng: &mut Rng) -> Option<Value> {
    let names: Vec<String> = img.files.keys().filter(|n| wal_num(n).is_some()).cloned().collect();
    let kind = rng.below(17);
    if names.is_empty() && !matches!(kind, 7 | 8 | 9 | 10 | 11) {
        return None;
    }
    match kind {
        0 => {
            let n = rng.pick(&names).clone();
            let d = img.files.get_mut(&n)?;
            let newlen = match rng.below(8) {
                0 => 0,
                1 => 1,
                2 => BLOCK - 1,
                3 => BLOCK + 1,
                4 => BLOCK,
                5 => d.len().saturating_sub(1),
                6 => 6,
                _ => rng.usize(0, d.len()),
            };
            d.truncate(newlen);
            Some(json!({"kind": "truncate-file", "file": n, "new_len": newlen}))
        }
        1 => {
            if names.is_empty() {
                return None;
            }
            let i = match rng.below(3) {
                0 => 0,
                1 => names.len() - 1,
                _ => rng.usize(0, names.len() - 1),
            };
            img.files.remove(&names[i]);
            Some(json!({"kind": "remove-file", "file": names[i]}))
        }
        2 => {
            let n = rng.pick(&names).clone();
            let d = img.files.get(&n)?.clone();
            let last = names.iter().filter_map(|x| wal_num(x)).max().unwrap_or(0);
            let newnum = match rng.below(4) {
                0 => last.saturating_add(1),
                1 => last.saturating_add(rng.range(2, 1000)),
                2 => u64::MAX,
                _ => rng.below(last.saturating_add(2).max(1)),
            };
            img.files.insert(wal_name(newnum), d);
            Some(json!({"kind": "duplicate-file", "file": n, "as": wal_name(newnum)}))
        }
        3 => {
            if names.len() < 2 {
                return None;
            }
            let a = rng.pick(&names).clone();
            let b = rng.pick(&names).clone();
            if a == b {
                return None;
            }
            let da = img.files.get(&a)?.clone();
            let db = img.files.get(&b)?.clone();
            img.files.insert(a.clone(), db);
            img.files.insert(b.clone(), da);
            Some(json!({"kind": "swap-files", "a": a, "b": b}))
        }
        4 => {
            let a = rng.pick(&names).clone();
            let b = rng.pick(&names).clone();
            let nba = img.files.get(&a)?.len() / BLOCK;
            let nbb = img.files.get(&b)?.len() / BLOCK;
            if nba == 0 || nbb == 0 {
                return None;
            }
            let ia = rng.usize(0, nba - 1);
            let ib = rng.usize(0, nbb - 1);
            let ba = img.files[&a][ia * BLOCK..(ia + 1) * BLOCK].to_vec();
            let bb = img.files[&b][ib * BLOCK..(ib + 1) * BLOCK].to_vec();
            img.files.get_mut(&a)?[ia * BLOCK..(ia + 1) * BLOCK].copy_from_slice(&bb);
            img.files.get_mut(&b)?[ib * BLOCK..(ib + 1) * BLOCK].copy_from_slice(&ba);
            Some(json!({"kind": "swap-blocks", "a": a, "block_a": ia, "b": b, "block_b": ib}))
        }
        5 => {
            let n = rng.pick(&names).clone();
            let d = img.files.get_mut(&n)?;
            let l = *rng.pick(&[1usize, 6, 7, 100, BLOCK - 1, BLOCK, BLOCK + 5, 3 * BLOCK]);
            let mut g = vec![0u8; l];
            if rng.chance(2, 3) {
                rng.fill(&mut g);
            }
            d.extend_from_slice(&g);
            Some(json!({"kind": "append-to-file", "file": n, "len": l}))
        }
        6 => {
            // renumber with gaps, up to u64::MAX
            let mut nums: Vec<u64> = names.iter().filter_map(|x| wal_num(x)).collect();
            nums.sort();
            let mut datas: Vec<Vec<u8>> = Vec::new();
            for n in &nums {
                datas.push(img.files.remove(&wal_name(*n))?);
            }
            let top = rng.chance(1, 3);
            // sometimes astronomically large gaps: nothing may iterate over file NUMBERS
            let huge = !top && rng.chance(1, 3);
            let mut cur = if top { u64::MAX - (nums.len() as u64) * 3 } else { rng.below(1 << 40) };
            let mut newnames = Vec::new();
            for d in datas {
                img.files.insert(wal_name(cur), d);
                newnames.push(wal_name(cur));
                cur = cur.saturating_add(if huge { 1u64 << rng.range(30, 58) } else { rng.range(1, 3) });
            }
            Some(json!({"kind": "renumber-with-gaps", "new_names": newnames}))
        }
        7 => {
            let stray = *rng.pick(&[
                "wal-0000000000000000001", "wal-000000000000000000011", "wal-0000000000000000000a", "WAL-00000000000000000001",
                "wal_00000000000000000001", "wal-99999999999999999999", ".wal-00000000000000000001", "wal-00000000000000000001\n",
                "wal-\u{0661}\u{0662}\u{0663}\u{0664}\u{0665}\u{0666}\u{0667}\u{0668}\u{0669}\u{0660}", "readme.txt", "wal-", "lock",
                // 24-byte valid UTF-8 names with a multi-byte character across byte offset 4 / 3 / 5
                "wal\u{e9}0000000000000000001", "wa\u{8a9e}0000000000000000002", "w\u{1F980}0000000000000000003",
                "\u{65e5}\u{672c}\u{8a9e}\u{306e}\u{30e1}\u{30e2}01.txt", "wal-\u{e9}000000000000000001", "wal-0000000000000000001.", "wal-00000000000000000000.bak",
                "wal-18446744073709551616", "wal-+0000000000000000001", "wal-0000000000000000000 ",
            ]);
            let mut g = vec![0u8; rng.usize(0, 2 * BLOCK)];
            rng.fill(&mut g);
            img.files.insert(stray.to_string(), g);
            Some(json!({"kind": "stray-file", "name": stray}))
        }
        8 => {
            let last = names.iter().filter_map(|x| wal_num(x)).max().unwrap_or(0);
            let n = wal_name(match rng.below(3) {
                0 => last.saturating_add(1),
                1 => 0,
                _ => rng.below(last.saturating_add(3).max(1)),
            });
            if img.files.contains_key(&n) {
                return None;
            }
            img.extras.push(Extra::Dir(n.clone()));
            Some(json!({"kind": "subdirectory-named-like-wal-file", "name": n}))
        }
        9 => {
            let nums: Vec<u64> = names.iter().filter_map(|x| wal_num(x)).collect();
            let last = nums.iter().max().copied().unwrap_or(0);
            let first = nums.iter().min().copied().unwrap_or(0);
            // behind the newest file, before the oldest one, or in the place of a removed file
            let n = match rng.below(3) {
                0 => wal_name(last.saturating_add(rng.range(1, 3))),
                1 if first > 0 => wal_name(first - 1),
                _ => {
                    if nums.len() >= 2 {
                        let victim = wal_name(*rng.pick(&nums));
                        img.files.remove(&victim);
                        victim
                    } else {
                        wal_name(last.saturating_add(1))
                    }
                }
            };
            if img.files.contains_key(&n) {
                return None;
            }
            match rng.below(4) {
                0 => {
                    img.extras.push(Extra::Fifo(n.clone()));
                    Some(json!({"kind": "fifo-named-like-wal-file", "name": n}))
                }
                1 => {
                    // a symlink loop
                    img.extras.push(Extra::Symlink(n.clone(), n.clone()));
                    Some(json!({"kind": "symlink-loop-named-like-wal-file", "name": n}))
                }
                _ => {
                    let target = if rng.chance(1, 2) && !names.is_empty() { rng.pick(&names).clone() } else { "/nonexistent/dangling".to_string() };
                    img.extras.push(Extra::Symlink(n.clone(), target.clone()));
                    Some(json!({"kind": "symlink-named-like-wal-file", "name": n, "target": target}))
                }
            }
        }
        10 => {
            // empty file in front / behind
            let nums: Vec<u64> = names.iter().filter_map(|x| wal_num(x)).collect();
            let last = nums.iter().max().copied().unwrap_or(0);
            let first = nums.iter().min().copied().unwrap_or(0);
            let n = if rng.chance(1, 2) && first > 0 { first - 1 } else { last.saturating_add(1) };
            let len = *rng.pick(&[0usize, 1, 7, BLOCK - 1, BLOCK, 4 * BLOCK]);
            img.files.insert(wal_name(n), vec![0u8; len]);
            Some(json!({"kind": "zero-file", "name": wal_name(n), "len": len}))
        }
        11 => {
            // remove everything but leave the directory (or leave only strays)
            for n in &names {
                img.files.remove(n);
            }
            Some(json!({"kind": "remove-all-wal-files"}))
        }
        12 => {
            // transpose two halves of a file
            let n = rng.pick(&names).clone();
            let d = img.files.get_mut(&n)?;
            let half = d.len() / 2;
            if half == 0 {
                return None;
            }
            let (a, b) = d.split_at_mut(half);
            let l = a.len().min(b.len());
            a[..l].swap_with_slice(&mut b[..l]);
            Some(json!({"kind": "transpose-file-halves", "file": n}))
        }
        13 | 14 => {
            // Over-long last file: a file that is full to its last block becomes the LAST file
            // (later files removed), gets 1..2 whole blocks of valid frames appended (a block
            // duplicated behind the end of the file), and - one time in two - an older file is
            // resurrected in front of the run, so that the open-time GC has something to do and
            // the writer that recovery builds on top of the over-long file has to write.
            let mut full: Vec<String> = Vec::new();
            for n in &names {
                let d = &img.files[n];
                if d.len() >= 4 * BLOCK && d.len() % BLOCK == 0 {
                    let fr = layout::parse_frames(d);
                    if fr.last().map(|f| f.end() + HDR > d.len()).unwrap_or(false) {
                        full.push(n.clone());
                    }
                }
            }
            let target = if full.is_empty() { rng.pick(&names).clone() } else { rng.pick(&full).clone() };
            let tnum = wal_num(&target)?;
            for n in &names {
                if wal_num(n).map(|x| x > tnum).unwrap_or(false) {
                    img.files.remove(n);
                }
            }
            let donor = rng.pick(&names).clone();
            let dd = img.files.get(&donor).cloned().unwrap_or_else(|| img.files[&target].clone());
            let nb = dd.len() / BLOCK;
            if nb == 0 {
                return None;
            }
            let mut appended = Vec::new();
            for _ in 0..rng.usize(1, 2) {
                let b = rng.usize(0, nb - 1);
                appended.push(b);
                let blk = dd[b * BLOCK..(b + 1) * BLOCK].to_vec();
                img.files.get_mut(&target)?.extend_from_slice(&blk);
            }
            let mut resurrected = None;
            let first = img.files.keys().filter_map(|x| wal_num(x)).min().unwrap_or(0);
            if first > 0 && rng.chance(1, 2) {
                let old = first - 1 - rng.below(first.min(3));
                img.files.insert(wal_name(old), dd.clone());
                resurrected = Some(wal_name(old));
            }
            Some(json!({"kind": "overlong-last-file", "file": target, "was_full": !full.is_empty(), "blocks_appended_from": {"file": donor, "blocks": appended}, "resurrected_older_file": resurrected}))
        }
        16 => {
            // a long unbroken run of files too short to hold a block, right behind a file
            // (preferably one that recovery reads to its end); the files behind move up
            let mut nums: Vec<u64> = names.iter().filter_map(|n| wal_num(n)).collect();
            nums.sort_unstable();
            let k = if nums.len() >= 2 { rng.usize(0, nums.len() - 2) } else { 0 };
            let run = rng.usize(200, 1500) as u64;
            if nums[nums.len() - 1] > u64::MAX / 2 {
                return None;
            }
            for n in nums[k + 1..].iter().rev() {
                let d = img.files.remove(&wal_name(*n))?;
                img.files.insert(wal_name(*n + run), d);
            }
            let len = *rng.pick(&[0usize, 1, 1, 100, BLOCK - 1]);
            for j in 1..=run {
                img.files.insert(wal_name(nums[k] + j), vec![0u8; len]);
            }
            Some(json!({"kind": "long-run-of-short-files", "after": wal_name(nums[k]), "files_in_run": run, "bytes_each": len, "files_moved_up": nums.len() - 1 - k}))
        }
        _ => {
            let n = rng.pick(&names).clone();
            let d = img.files.get_mut(&n)?;
            let nb = d.len() / BLOCK;
            if nb == 0 {
                return None;
            }
            let b = rng.usize(0, nb - 1);
            d[b * BLOCK..(b + 1) * BLOCK].iter_mut().for_each(|x| *x = 0);
            Some(json!({"kind": "zero-block", "file": n, "block": b}))
        }
    }
}

/// Build a WAL stream of CRC-valid frames carrying hostile entry content, so that the
/// mutation reaches the entry decoder and the in-memory queues instead of dying at the
/// checksum.  Returns (bytes padded to whole files of `file_size`, description).
pub fn crafted_stream(rng: &mut Rng, file_size: usize) -> (Vec<Vec<u8>>, Value) {
    let mut buf: Vec<u8> = Vec::new();
    let mut desc: Vec<Value> = Vec::new();
    let names: [&[u8]; 5] = [b"q", b"other", b"", b"\xff\xfe not utf8", b"a-much-longer-queue-name-for-crafted-content"];
    let interesting: [u64; 10] = [0, 1, 2, 1 << 31, 1 << 32, 1 << 62, (1 << 63) - 1, 1 << 63, u64::MAX - 1, u64::MAX];
    let n = rng.usize(1, 40);
    for _ in 0..n {
        let q = *rng.pick(&names);
        let pos = if rng.chance(1, 2) { *rng.pick(&interesting) } else { rng.below(200) };
        match rng.below(10) {
            0..=3 => {
                // append with hostile per-record fields
                let nrec = rng.usize(0, 5);
                let mut recs: Vec<(u64, Vec<u8>)> = Vec::new();
                let mut p = pos;
                for _ in 0..nrec {
                    let mut d = vec![0u8; rng.usize(0, 300)];
                    rng.fill(&mut d);
                    recs.push((p, d));
                    p = match rng.below(6) {
                        0 => *rng.pick(&interesting),
                        1 => p, // duplicate position
                        2 => p.wrapping_sub(1),
                        _ => p.wrapping_add(1),
                    };
                }
                let mut e = layout::entry_bytes(4, pos, q, &recs);
                match rng.below(6) {
                    0 => {
                        // truncated tail
                        let cut = rng.usize(0, e.len());
                        e.truncate(cut);
                    }
                    1 => {
                        // per-record length field larger than what follows
                        if e.len() >= 11 + q.len() + 12 {
                            let o = 11 + q.len() + 8;
                            e[o..o + 4].copy_from_slice(&(*rng.pick(&[u32::MAX, 1 << 31, 100_000, 301])).to_le_bytes());
                        }
                    }
                    2 => {
                        // name length beyond the entry
                        e[9..11].copy_from_slice(&(*rng.pick(&[u16::MAX, 1000, 12])).to_le_bytes());
                    }
                    _ => {}
                }
                desc.push(json!({"entry": "append", "queue": String::from_utf8_lossy(q), "position": pos, "records": nrec}));
                layout::write_entry(&mut buf, &e);
            }
            4 => {
                desc.push(json!({"entry": "truncate", "queue": String::from_utf8_lossy(q), "position": pos}));
                layout::write_entry(&mut buf, &layout::entry_bytes(1, pos, q, &[]));
            }
            5 => {
                desc.push(json!({"entry": "record-position", "queue": String::from_utf8_lossy(q), "position": pos}));
                layout::write_entry(&mut buf, &layout::entry_bytes(2, pos, q, &[]));
            }
            6 => {
                desc.push(json!({"entry": "delete-queue", "queue": String::from_utf8_lossy(q), "position": pos}));
                layout::write_entry(&mut buf, &layout::entry_bytes(3, pos, q, &[]));
            }
            7 => {
                // unknown entry type / too-short entry
                let mut e = layout::entry_bytes(*rng.pick(&[0u8, 5, 255]), pos, q, &[]);
                if rng.chance(1, 2) {
                    e.truncate(rng.usize(0, 10));
                }
                desc.push(json!({"entry": "invalid-type-or-short", "len": e.len()}));
                layout::write_entry(&mut buf, &e);
            }
            8 => {
                // hostile frame-type sequences with valid checksums
                let seq: &[u8] = *rng.pick(&[&[3u8, 4][..], &[2, 2, 4], &[2, 3, 3, 3], &[4], &[2, 1, 4], &[3, 3, 3, 3, 3, 3]]);
                for t in seq {
                    let room = BLOCK - buf.len() % BLOCK;
                    if room < HDR + 40 {
                        buf.extend(std::iter::repeat(0u8).take(room));
                    }
                    let mut d = vec![0u8; rng.usize(0, 30)];
                    rng.fill(&mut d);
                    layout::write_frame(&mut buf, *t, &d);
                }
                desc.push(json!({"frames": seq}));
            }
            _ => {
                // a very long name (control entry spanning frames)
                let long = vec![b'n'; *rng.pick(&[255usize, 32761, 40000, 65535])];
                desc.push(json!({"entry": "record-position-long-name", "name_len": long.len(), "position": pos}));
                layout::write_entry(&mut buf, &layout::entry_bytes(2, pos, &long, &[]));
            }
        }
    }
    // split into files
    let mut files = Vec::new();
    let mut rest = &buf[..];
    while !rest.is_empty() {
        let take = rest.len().min(file_size);
        let mut f = rest[..take].to_vec();
        f.resize(file_size, 0);
        files.push(f);
        rest = &rest[take..];
    }
    if files.is_empty() {
        files.push(vec![0u8; file_size]);
    }
    (files, Value::Array(desc))
}
