//! Seeded history generator with workload profiles (DESIGN.md section 2.2).

use std::collections::{BTreeMap, VecDeque};

use crate::ops::Op;
use crate::util::Rng;

pub const BLOCK: u64 = 32_768;

#[derive(Clone, Copy, Debug, PartialEq, Eq)]
pub enum Profile {
    Mixed,
    Gc,
    Idle,
    Dense,
    Delete,
    BigName,
    Huge,
    Align,
}

pub const ALL_PROFILES: [Profile; 8] = [
    Profile::Mixed,
    Profile::Gc,
    Profile::Idle,
    Profile::Dense,
    Profile::Delete,
    Profile::BigName,
    Profile::Huge,
    Profile::Align,
];

impl Profile {
    pub fn name(self) -> &'static str {
        match self {
            Profile::Mixed => "mixed",
            Profile::Gc => "gc",
            Profile::Idle => "idle",
            Profile::Dense => "dense",
            Profile::Delete => "delete",
            Profile::BigName => "bigname",
            Profile::Huge => "huge",
            Profile::Align => "align",
        }
    }
}

#[derive(Clone, Debug)]
pub struct GenCfg {
    pub profile: Profile,
    pub nqueues: usize,
    /// per-mille probability of a Restart op
    pub restart_pm: u32,
    /// per-mille probability of an explicit persist
    pub persist_pm: u32,
    /// per-mille probability of a rejected / no-op call shape
    pub bad_pm: u32,
    /// WAL file size in bytes (read from the live log by the caller)
    pub file_size: u64,
}

impl GenCfg {
    pub fn new(profile: Profile, nqueues: usize, file_size: u64) -> GenCfg {
        GenCfg { profile, nqueues, restart_pm: 40, persist_pm: 20, bad_pm: 60, file_size }
    }
}

#[derive(Clone, Debug, Default)]
pub struct GQ {
    pub next: u64,
    pub recs: VecDeque<(u64, u32)>,
    pub bytes: u64,
}

pub struct Gen {
    pub rng: Rng,
    pub cfg: GenCfg,
    pub names: Vec<String>,
    pub st: BTreeMap<String, GQ>,
    pub nops: usize,
    /// idle profile: names of queues that are being kept idle
    idle: Vec<String>,
    /// operation to issue next, whatever the profile says (set by a generated op that must be
    /// followed up, e.g. truncate(..=u64::MAX) is followed by the deletion of the queue)
    pending: Option<Op>,
    /// total payload bytes appended since the last truncate burst (gc pacing)
    since_trunc: u64,
}

fn make_name(rng: &mut Rng, i: usize, profile: Profile) -> String {
    let big = profile == Profile::BigName;
    if !big {
        // one time in five: a family of names that are prefixes / case variants / padded
        // variants of one another
        if rng.chance(1, 5) {
            let fam = ["p", "pp", "ppp", "P", "p ", " p", "p\u{0}", "p/", "pp ", "", "\u{0}", "pppp"];
            return fam[(i + rng.below(4) as usize * 3) % fam.len()].to_string();
        }
        return match rng.below(6) {
            0 => format!("q{}", i),
            1 => format!("queue-{}-\u{3b1}\u{3b2}", i),
            2 => format!("{}", (b'a' + (i % 26) as u8) as char),
            3 => format!("tenant/{}/source:{}", i, rng.below(1000)),
            4 => format!("q{} with spaces \u{1F980}", i),
            _ => format!("index-{:08x}-{}", rng.next() as u32, i),
        };
    }
    let len = *rng.pick(&[255usize, 256, 4096, 32761, 32768, 40000, 65535, 65534, 1, 300]);
    let mut s = format!("{}:", i);
    let filler: &[&str] = &["a", "\u{e9}", "\u{4e2d}", "\u{1F980}", "z", "0"];
    while s.len() < len {
        let f = filler[rng.below(filler.len() as u64) as usize];
        if s.len() + f.len() > len {
            s.push('x');
        } else {
            s.push_str(f);
        }
    }
    if s.len() > len {
        // i: prefix longer than requested (len == 1)
        s = format!("{}", (b'A' + (i % 26) as u8) as char);
    }
    s
}

impl Gen {
    pub fn new(seed_parts: &[u64], cfg: GenCfg) -> Gen {
        let mut rng = Rng::from_parts(seed_parts);
        let mut names: Vec<String> = Vec::new();
        for i in 0..cfg.nqueues.max(1) {
            loop {
                let n = make_name(&mut rng, i, cfg.profile);
                if !names.contains(&n) {
                    names.push(n);
                    break;
                }
            }
        }
        Gen { rng, cfg, names, st: BTreeMap::new(), nops: 0, idle: Vec::new(), pending: None, since_trunc: 0 }
    }

    pub fn existing(&self) -> Vec<String> {
        self.st.keys().cloned().collect()
    }

    fn pick_existing(&mut self) -> Option<String> {
        let ex = self.existing();
        if ex.is_empty() {
            None
        } else {
            Some(self.rng.pick(&ex).clone())
        }
    }

    fn pick_active(&mut self) -> Option<String> {
        let ex: Vec<String> = self.existing().into_iter().filter(|q| !self.idle.contains(q)).collect();
        if ex.is_empty() {
            self.pick_existing()
        } else {
            Some(self.rng.pick(&ex).clone())
        }
    }

    fn pick_missing(&mut self) -> String {
        let miss: Vec<String> = self.names.iter().filter(|n| !self.st.contains_key(*n)).cloned().collect();
        if !miss.is_empty() && self.rng.chance(3, 4) {
            self.rng.pick(&miss).clone()
        } else {
            format!("never-created-{}", self.rng.below(1000))
        }
    }

    fn payload_len(&mut self) -> usize {
        // with real-size (128 MiB) WAL files, scale the bigger payloads so that a history
        // rolls over as often as it does with the 128 KiB files of the `verif` feature
        let scale = (self.cfg.file_size / 131_072).max(1) as usize;
        let l = self.payload_len_unscaled();
        if scale > 1 && l >= 2_000 {
            l * scale
        } else {
            l
        }
    }

    fn payload_len_unscaled(&mut self) -> usize {
        let r = &mut self.rng;
        match self.cfg.profile {
            Profile::Dense => r.usize(0, 64),
            Profile::Gc | Profile::Idle => match r.below(10) {
                0 => r.usize(0, 200),
                1..=7 => r.usize(8_000, 40_000),
                _ => r.usize(40_000, 70_000),
            },
            Profile::Huge => match r.below(10) {
                0..=2 => r.usize(130_000, 600_000),
                3..=5 => r.usize(20_000, 120_000),
                _ => r.usize(0, 3000),
            },
            Profile::BigName | Profile::Delete => match r.below(10) {
                0..=5 => r.usize(0, 300),
                6..=8 => r.usize(2_000, 30_000),
                _ => r.usize(30_000, 70_000),
            },
            Profile::Mixed | Profile::Align => match r.below(20) {
                0 => 0,
                1..=6 => r.usize(1, 64),
                7..=11 => r.usize(64, 2_000),
                12..=16 => r.usize(2_000, 20_000),
                17..=18 => r.usize(20_000, 100_000),
                _ => r.usize(100_000, 300_000),
            },
        }
    }

    fn batch(&mut self) -> Vec<usize> {
        // "heartbeat" batches: runs of empty payloads (records that occupy no payload bytes)
        if self.rng.chance(1, 40) {
            let n = self.rng.usize(2, 40);
            return vec![0; n];
        }
        // frame-commensurate batches: a frame payload is 32761 = 181 * 181 bytes and a
        // serialized record is 12 + len bytes, so with 169-byte (or 32749-byte) records an
        // entry that loses exactly one full frame still parses as a whole number of records -
        // the shape that turns a reader slip into accepted data instead of a dropped entry
        if self.rng.chance(1, 40) {
            return if self.rng.chance(3, 4) { vec![169; self.rng.usize(400, 700)] } else { vec![32_749; self.rng.usize(3, 5)] };
        }
        let n = match self.rng.below(100) {
            0..=1 => 0,
            2..=61 => 1,
            62..=91 => self.rng.usize(2, 8),
            _ => self.rng.usize(9, 64),
        };
        let mut lens = Vec::with_capacity(n);
        let big_batch = n > 8;
        for _ in 0..n {
            let mut l = self.payload_len();
            if big_batch && l > 4000 {
                l %= 4000;
            }
            lens.push(l);
        }
        // now and then the batch ends (or starts) with an empty payload
        if n > 0 && self.rng.chance(1, 25) {
            if self.rng.chance(2, 3) {
                lens.push(0);
            } else {
                lens.insert(0, 0);
            }
        }
        lens
    }

    /// Sizes aimed so that the serialized entry ends near a block boundary, given the
    /// current WAL cursor (offset of the next byte to be written, modulo the block size).
    fn aligned_batch(&mut self, q: &str, cursor: u64) -> Vec<usize> {
        let in_block = cursor % BLOCK;
        let rem = BLOCK - in_block; // bytes left in the block (1..=BLOCK)
        // one time in four: a single record whose payload tail (the forged entry every payload
        // carries, see ops::payload_bytes) starts exactly at a frame boundary
        let forge = self.rng.chance(1, 4);
        let nrec = if forge { 1 } else { *self.rng.pick(&[1usize, 1, 1, 2, 3]) };
        let fixed = 11 + q.len() as i64 + 12 * nrec as i64; // entry bytes besides payload
        // number of additional whole blocks the entry should span
        let mut extra_blocks = *self.rng.pick(&[0i64, 0, 0, 1, 1, 2, 3, 5]);
        // one time in three aim at the end of the FILE (the last block of the file)
        let mut exact_end = false;
        if self.rng.chance(1, 3) {
            let fsz = self.cfg.file_size.max(BLOCK);
            let in_file = cursor % fsz;
            let blocks_left_in_file = ((fsz - in_file + BLOCK - 1) / BLOCK) as i64; // incl. the current one
            extra_blocks = blocks_left_in_file - 1;
            // one time in three: fill the file to its very last byte
            exact_end = self.rng.chance(1, 3);
        }
        let d = if forge { crate::ops::FORGED_ENTRY_LEN as i64 } else if exact_end { 0 } else { self.rng.range(0, 18) as i64 - 9 }; // -9..=9 around the boundary
        // entry length such that (with one header per frame) the last frame ends d bytes
        // from the end of the target block
        let first_cap = if rem >= 7 { rem as i64 - 7 } else { BLOCK as i64 - 7 };
        let target_entry = first_cap + extra_blocks * (BLOCK as i64 - 7) + d;
        let mut payload_total = target_entry - fixed;
        if payload_total < 0 {
            payload_total = self.rng.range(0, 20) as i64;
        }
        let mut lens = vec![0usize; nrec];
        let mut left = payload_total as usize;
        for (i, l) in lens.iter_mut().enumerate() {
            if i + 1 == nrec {
                *l = left;
            } else {
                let take = self.rng.usize(0, left);
                *l = take;
                left -= take;
            }
        }
        lens
    }

    fn note(&mut self, op: &Op) {
        self.nops += 1;
        match op {
            Op::Create { q } => {
                self.st.entry(q.clone()).or_default();
            }
            Op::Delete { q } => {
                self.st.remove(q);
                self.idle.retain(|x| x != q);
            }
            Op::Append { q, pos, lens, .. } => {
                if let Some(g) = self.st.get_mut(q) {
                    if let Some(p) = pos {
                        if *p + 1 == g.next || *p < g.next {
                            return;
                        }
                    }
                    let mut p = pos.unwrap_or(g.next);
                    for l in lens {
                        g.recs.push_back((p, *l as u32));
                        g.bytes += *l as u64;
                        self.since_trunc += *l as u64;
                        p += 1;
                    }
                    if !lens.is_empty() {
                        g.next = p;
                    }
                }
            }
            Op::Truncate { q, pos } => {
                if let Some(g) = self.st.get_mut(q) {
                    while let Some(f) = g.recs.front() {
                        if f.0 <= *pos {
                            g.bytes -= f.1 as u64;
                            g.recs.pop_front();
                        } else {
                            break;
                        }
                    }
                    if g.recs.is_empty() && pos.saturating_add(1) > g.next {
                        g.next = pos.saturating_add(1);
                    }
                }
            }
            _ => {}
        }
    }

    fn gen_append(&mut self, q: String, cursor: Option<u64>) -> Op {
        // a queue parked at the end of the position space (after truncate(..=u64::MAX)) is
        // not appended to: that is the overflow corner listed under C10's known findings
        if self.st.get(&q).map(|g| g.next >= u64::MAX - (1 << 32)).unwrap_or(false) {
            return Op::Delete { q };
        }
        let next = self.st[&q].next;
        let pos = match self.rng.below(100) {
            0..=69 => None,
            70..=81 => Some(next),
            82..=87 => Some(next + self.rng.range(1, 1000)),
            88..=89 => Some(next + (1u64 << self.rng.range(10, 60))),
            90..=94 => {
                if next > 0 {
                    Some(next - 1)
                } else {
                    None
                }
            }
            _ => {
                if next > 1 {
                    Some(self.rng.below(next - 1))
                } else {
                    None
                }
            }
        };
        let lens = match (self.cfg.profile, cursor) {
            (Profile::Align, Some(c)) if self.rng.chance(4, 5) => self.aligned_batch(&q, c),
            _ => self.batch(),
        };
        let chained = self.rng.chance(1, 6);
        Op::Append { q, pos, lens, chained }
    }

    fn gen_truncate(&mut self, q: String) -> Op {
        let g = &self.st[&q];
        let next = g.next;
        let first = g.recs.front().map(|x| x.0);
        let last = g.recs.back().map(|x| x.0);
        let n = g.recs.len();
        // "drop everything": truncate(..=u64::MAX), one truncate in fifty. It parks the queue at
        // the end of the position space (appending there is the overflow corner listed under
        // C10's known findings), so the queue is deleted right afterwards.
        if self.st.len() > 1 && self.rng.chance(1, 50) {
            self.pending = Some(Op::Delete { q: q.clone() });
            return Op::Truncate { q, pos: u64::MAX };
        }
        // an EMPTY queue that has already moved forward: one time in four a stale truncate,
        // well below where the queue stands (a late or duplicated request)
        if n == 0 && next > 1 && self.rng.chance(1, 4) {
            let pos = self.rng.below(next - 1);
            return Op::Truncate { q, pos };
        }
        // a retained record with an EMPTY payload: one time in five truncate exactly there
        if n > 0 && self.rng.chance(1, 5) {
            let empties: Vec<u64> = self.st[&q].recs.iter().filter(|r| r.1 == 0).map(|r| r.0).collect();
            if !empties.is_empty() {
                let pos = *self.rng.pick(&empties);
                return Op::Truncate { q, pos };
            }
        }
        let pos = match self.rng.below(100) {
            0..=59 if n > 0 => {
                // inside the retained range: the position of a retained record or, one time
                // in four, any position between the first and the last one (which may fall
                // into a gap left by an append at an explicit future position)
                if self.rng.chance(1, 4) {
                    self.rng.range(first.unwrap(), last.unwrap())
                } else {
                    let i = self.rng.below(n as u64) as usize;
                    self.st[&q].recs[i].0
                }
            }
            60..=74 if n > 0 => last.unwrap(),
            75..=79 if first.unwrap_or(0) > 0 => self.rng.below(first.unwrap()),
            80..=89 => next + self.rng.range(0, 50),
            90..=92 => next + (1u64 << self.rng.range(8, 60)),
            _ => {
                if next > 0 {
                    next - 1
                } else {
                    0
                }
            }
        };
        Op::Truncate { q, pos }
    }

    /// A rejected or acknowledged-no-op call shape (C13).
    pub fn gen_bad(&mut self) -> Op {
        let existing = self.pick_existing();
        let choice = self.rng.below(9);
        match (choice, existing) {
            (0, Some(q)) => Op::Create { q },
            (1, _) => Op::Delete { q: self.pick_missing() },
            (2, _) => Op::Truncate { q: self.pick_missing(), pos: self.rng.below(100) },
            (3, _) => {
                let lens = self.batch();
                Op::Append { q: self.pick_missing(), pos: None, lens, chained: false }
            }
            (4, Some(q)) if self.st[&q].next > 1 => {
                // position in the past
                let next = self.st[&q].next;
                let lens = vec![self.rng.usize(0, 100)];
                Op::Append { q, pos: Some(self.rng.below(next - 1)), lens, chained: false }
            }
            (5, Some(q)) if self.st[&q].next > 0 => {
                // retry of the last position with a non-empty payload
                let next = self.st[&q].next;
                let lens = vec![self.rng.usize(1, 5000)];
                Op::Append { q, pos: Some(next - 1), lens, chained: self.rng.chance(1, 4) }
            }
            (6, Some(q)) => Op::Append { q, pos: None, lens: vec![], chained: false },
            (7, Some(q)) => {
                let next = self.st[&q].next;
                Op::Append { q, pos: Some(next), lens: vec![], chained: false }
            }
            (_, Some(q)) => {
                let next = self.st[&q].next;
                Op::Append { q, pos: Some(next + self.rng.range(1, 100)), lens: vec![], chained: false }
            }
            (_, None) => Op::Delete { q: self.pick_missing() },
        }
    }

    /// Tell the generator about an operation chosen by the caller.
    pub fn note_external(&mut self, op: &Op) {
        self.note(op);
    }

    /// Next operation.  `cursor` = current WAL write offset if the caller knows it.
    pub fn next_op(&mut self, cursor: Option<u64>) -> Op {
        let op = self.choose(cursor);
        self.note(&op);
        op
    }

    fn choose(&mut self, cursor: Option<u64>) -> Op {
        if let Some(op) = self.pending.take() {
            if op.queue().map(|q| self.st.contains_key(q)).unwrap_or(true) {
                return op;
            }
        }
        if self.st.is_empty() {
            let q = self.rng.pick(&self.names).clone();
            return Op::Create { q };
        }
        // align profile: when the write cursor sits within a few bytes of the end of the WAL
        // file, favour CONTROL entries (create / truncate / delete) so that they are the ones
        // that straddle or trigger the roll-over
        if self.cfg.profile == Profile::Align {
            if let Some(c) = cursor {
                let fsz = self.cfg.file_size;
                let rem = if c <= fsz { fsz - c } else { 0 };
                if rem < 48 && self.rng.chance(2, 3) {
                    let missing: Vec<String> = self.names.iter().filter(|n| !self.st.contains_key(*n)).cloned().collect();
                    return match self.rng.below(3) {
                        0 if !missing.is_empty() => Op::Create { q: self.rng.pick(&missing).clone() },
                        1 if self.st.len() > 1 => Op::Delete { q: self.pick_existing().unwrap() },
                        _ => {
                            let q = self.pick_existing().unwrap();
                            self.gen_truncate(q)
                        }
                    };
                }
            }
        }
        let pm = self.rng.below(1000) as u32;
        if pm < self.cfg.restart_pm {
            return Op::Restart;
        }
        if pm < self.cfg.restart_pm + self.cfg.persist_pm {
            return Op::Persist { fsync: self.rng.chance(1, 2) };
        }
        if pm < self.cfg.restart_pm + self.cfg.persist_pm + self.cfg.bad_pm {
            return self.gen_bad();
        }
        let missing: Vec<String> = self.names.iter().filter(|n| !self.st.contains_key(*n)).cloned().collect();
        let fsz = self.cfg.file_size;
        match self.cfg.profile {
            Profile::Gc => {
                // sliding window: keep roughly 0.5 .. 2 files of data per queue
                if !missing.is_empty() && self.rng.chance(1, 6) {
                    return Op::Create { q: self.rng.pick(&missing).clone() };
                }
                if self.rng.chance(1, 60) {
                    let q = self.pick_existing().unwrap();
                    return Op::Delete { q };
                }
                let total: u64 = self.st.values().map(|g| g.bytes).sum();
                if total > fsz / 2 + self.rng.below(fsz * 3 / 2) || self.rng.chance(1, 12) {
                    // truncate the fattest queue, trailing closely
                    let q = self.st.iter().max_by_key(|(_, g)| g.bytes).map(|(n, _)| n.clone()).unwrap();
                    let g = &self.st[&q];
                    if g.recs.is_empty() {
                        return self.gen_truncate(q);
                    }
                    let keep = self.rng.below(3) as usize;
                    let idx = g.recs.len().saturating_sub(1 + keep);
                    let pos = g.recs[idx].0;
                    self.since_trunc = 0;
                    return Op::Truncate { q, pos };
                }
                let q = self.pick_existing().unwrap();
                self.gen_append(q, cursor)
            }
            Profile::Idle => {
                if !missing.is_empty() && self.rng.chance(1, 3) {
                    return Op::Create { q: self.rng.pick(&missing).clone() };
                }
                // turn a queue idle: empty it by truncation (to last / into the future)
                if self.idle.len() + 1 < self.st.len() && self.rng.chance(1, 10) {
                    let cands: Vec<String> = self.existing().into_iter().filter(|q| !self.idle.contains(q)).collect();
                    let q = self.rng.pick(&cands).clone();
                    let next = self.st[&q].next;
                    let pos = match self.rng.below(3) {
                        0 => next.saturating_sub(1),
                        1 => next + self.rng.range(0, 500),
                        _ => next + (1u64 << self.rng.range(8, 40)),
                    };
                    self.idle.push(q.clone());
                    return Op::Truncate { q, pos };
                }
                // wake one up now and then
                if !self.idle.is_empty() && self.rng.chance(1, 25) {
                    let i = self.rng.below(self.idle.len() as u64) as usize;
                    let q = self.idle.remove(i);
                    if self.st.contains_key(&q) {
                        return self.gen_append(q, cursor);
                    }
                }
                let total: u64 = self.st.values().map(|g| g.bytes).sum();
                if total > fsz / 2 + self.rng.below(fsz) {
                    let q = self.st.iter().max_by_key(|(_, g)| g.bytes).map(|(n, _)| n.clone()).unwrap();
                    let g = &self.st[&q];
                    if !g.recs.is_empty() {
                        let keep = self.rng.below(2) as usize;
                        let idx = g.recs.len().saturating_sub(1 + keep);
                        let pos = g.recs[idx].0;
                        return Op::Truncate { q, pos };
                    }
                }
                let q = self.pick_active().unwrap();
                self.gen_append(q, cursor)
            }
            Profile::Delete => {
                let w = [if missing.is_empty() { 0 } else { 25 }, 15, 45, 15];
                match self.rng.weighted(&w) {
                    0 => Op::Create { q: self.rng.pick(&missing).clone() },
                    1 => Op::Delete { q: self.pick_existing().unwrap() },
                    2 => {
                        let q = self.pick_existing().unwrap();
                        self.gen_append(q, cursor)
                    }
                    _ => {
                        let q = self.pick_existing().unwrap();
                        self.gen_truncate(q)
                    }
                }
            }
            _ => {
                let w = [if missing.is_empty() { 0 } else { 8 }, 3, 64, 25];
                match self.rng.weighted(&w) {
                    0 => Op::Create { q: self.rng.pick(&missing).clone() },
                    1 => Op::Delete { q: self.pick_existing().unwrap() },
                    2 => {
                        let q = self.pick_existing().unwrap();
                        self.gen_append(q, cursor)
                    }
                    _ => {
                        let q = self.pick_existing().unwrap();
                        self.gen_truncate(q)
                    }
                }
            }
        }
    }

    /// Generate `n` operations offline (no cursor feedback).
    pub fn history(&mut self, n: usize) -> Vec<Op> {
        (0..n).map(|_| self.next_op(None)).collect()
    }
}
