//! Directory images reconstructed from the syscall trace (DESIGN.md 2.2 "Image builder").
//!
//! `Builder` replays traced events into an in-memory {file name -> bytes} map.  The
//! process-crash image at a point is the map itself (every completed syscall is in the
//! page cache, in program order).  The power-loss image keeps, per file, only what was
//! covered by an fsync/fdatasync of that file; unlinks are taken as durable at once.

use std::collections::BTreeMap;
use std::path::Path;

use crate::shim::Ev;
use crate::util::{hash_bytes, hash_combine};

#[derive(Clone, Debug, PartialEq, Eq)]
pub enum Extra {
    Dir(String),
    /// (name, target)
    Symlink(String, String),
    /// a named pipe: reading it blocks for ever (nobody writes)
    Fifo(String),
}

#[derive(Clone, Debug, Default, PartialEq, Eq)]
pub struct Image {
    pub files: BTreeMap<String, Vec<u8>>,
    /// non-regular entries (sub-directories, symlinks) used by the hostile-directory checks
    pub extras: Vec<Extra>,
}

impl Image {
    /// Read every regular file directly inside `dir`.
    pub fn from_dir(dir: &Path) -> Image {
        let mut files = BTreeMap::new();
        if let Ok(rd) = std::fs::read_dir(dir) {
            for e in rd.flatten() {
                if e.file_type().map(|t| t.is_file()).unwrap_or(false) {
                    if let (Some(name), Ok(data)) = (e.file_name().to_str().map(|s| s.to_string()), std::fs::read(e.path())) {
                        files.insert(name, data);
                    }
                }
            }
        }
        Image { files, extras: Vec::new() }
    }

    /// Write the image into `dir` (emptied first).
    pub fn materialize(&self, dir: &Path) {
        crate::util::clear_dir(dir);
        for (n, d) in &self.files {
            std::fs::write(dir.join(n), d).expect("materialize image file");
        }
        for x in &self.extras {
            match x {
                Extra::Dir(n) => {
                    let _ = std::fs::create_dir_all(dir.join(n));
                }
                Extra::Symlink(n, target) => {
                    let _ = std::os::unix::fs::symlink(target, dir.join(n));
                }
                Extra::Fifo(n) => {
                    if let Ok(c) = std::ffi::CString::new(dir.join(n).to_string_lossy().as_bytes()) {
                        unsafe { libc::mkfifo(c.as_ptr(), 0o644) };
                    }
                }
            }
        }
    }

    pub fn digest(&self) -> u64 {
        let mut h = 0xABCDu64;
        for (n, d) in &self.files {
            h = hash_combine(h, hash_bytes(n.as_bytes()));
            h = hash_combine(h, hash_bytes(d));
        }
        h
    }

    pub fn total_bytes(&self) -> usize {
        self.files.values().map(|d| d.len()).sum()
    }

    pub fn describe(&self) -> serde_json::Value {
        serde_json::Value::Array(self.files.iter().map(|(n, d)| serde_json::json!({"file": n, "len": d.len()})).collect())
    }
}

#[derive(Clone, Copy, Debug, PartialEq, Eq)]
pub enum NeverSynced {
    /// a file that was never fsynced is missing after power loss
    Absent,
    /// ... exists with length 0
    ZeroLen,
    /// ... exists at its current length, zero-filled
    ZeroFilled,
}

#[derive(Clone, Debug, Default)]
pub struct Builder {
    pub cur: Image,
    /// content as of the last successful fsync/fdatasync of each file
    synced: BTreeMap<String, Vec<u8>>,
    /// (file, offset, data) written since the last fsync of that file, in program order
    unsynced: Vec<(String, u64, Vec<u8>)>,
    pub unmodelled: Vec<String>,
    /// files whose directory entry was covered by an fsync of the directory
    entry_durable: std::collections::BTreeSet<String>,
}

impl Builder {
    pub fn new(initial: Image) -> Builder {
        let synced = initial.files.clone();
        let entry_durable = initial.files.keys().cloned().collect();
        Builder { cur: initial, synced, unsynced: Vec::new(), unmodelled: Vec::new(), entry_durable }
    }

    fn write_into(file: &mut Vec<u8>, off: u64, data: &[u8]) {
        let end = off as usize + data.len();
        if file.len() < end {
            file.resize(end, 0);
        }
        file[off as usize..end].copy_from_slice(data);
    }

    /// Apply one traced event completely.
    pub fn apply(&mut self, ev: &Ev) {
        match ev {
            Ev::Open { name, flags, err: 0, .. } if flags & (libc::O_CREAT as u32) != 0 => {
                if name != "." {
                    self.cur.files.entry(name.clone()).or_default();
                }
            }
            Ev::Write { name, off, data, .. } if !data.is_empty() => self.apply_write_prefix(name, *off, data, data.len()),
            Ev::Ftruncate { name, len, err: 0 } => {
                if let Some(f) = self.cur.files.get_mut(name) {
                    f.resize(*len as usize, 0);
                    // size changes are journalled metadata: model them as written data
                    self.unsynced.push((name.clone(), u64::MAX, (*len).to_le_bytes().to_vec()));
                }
            }
            Ev::Unlink { name, err: 0 } => {
                self.cur.files.remove(name);
                self.synced.remove(name);
                self.entry_durable.remove(name);
                self.unsynced.retain(|(n, _, _)| n != name);
            }
            Ev::Fsync { name, err: 0, .. } if name == "." => {
                self.entry_durable = self.cur.files.keys().cloned().collect();
            }
            Ev::Fsync { name, err: 0, .. } => {
                if let Some(f) = self.cur.files.get(name) {
                    self.synced.insert(name.clone(), f.clone());
                    self.unsynced.retain(|(n, _, _)| n != name);
                }
            }
            Ev::Rename { from, to } => self.unmodelled.push(format!("rename {} -> {}", from, to)),
            Ev::Unmodelled { what, name } => self.unmodelled.push(format!("{} {}", what, name)),
            Ev::Mkdir { name } => self.unmodelled.push(format!("mkdir {}", name)),
            Ev::Rmdir { name } => self.unmodelled.push(format!("rmdir {}", name)),
            _ => {}
        }
    }

    /// Apply only the first `n` bytes of a write (torn write at a process crash).
    pub fn apply_write_prefix(&mut self, name: &str, off: u64, data: &[u8], n: usize) {
        if n == 0 {
            return;
        }
        // a write through an fd whose name was unlinked goes nowhere visible
        if let Some(f) = self.cur.files.get_mut(name) {
            Builder::write_into(f, off, &data[..n]);
            self.unsynced.push((name.to_string(), off, data[..n].to_vec()));
        }
    }

    /// Process-crash image: everything handed to the OS so far.
    pub fn process_image(&self) -> &Image {
        &self.cur
    }

    /// Power-loss image: per file only what an fsync covered, plus the first `keep` of the
    /// still-unsynced writes (in program order).  Files never fsynced follow `ns`.
    pub fn power_image(&self, ns: NeverSynced, keep: usize) -> Image {
        let mut out = Image::default();
        for (n, cur) in &self.cur.files {
            if ns == NeverSynced::Absent && !self.entry_durable.contains(n) {
                continue;
            }
            match self.synced.get(n) {
                Some(s) => {
                    out.files.insert(n.clone(), s.clone());
                }
                None => match ns {
                    NeverSynced::Absent => {}
                    NeverSynced::ZeroLen => {
                        out.files.insert(n.clone(), Vec::new());
                    }
                    NeverSynced::ZeroFilled => {
                        out.files.insert(n.clone(), vec![0u8; cur.len()]);
                    }
                },
            }
        }
        for (n, off, data) in self.unsynced.iter().take(keep) {
            if let Some(f) = out.files.get_mut(n) {
                if *off == u64::MAX {
                    let len = u64::from_le_bytes(data[..8].try_into().unwrap());
                    f.resize(len as usize, 0);
                } else {
                    Builder::write_into(f, *off, data);
                }
            }
        }
        out
    }

    pub fn unsynced_len(&self) -> usize {
        self.unsynced.len()
    }
}

/// Call windows found in a trace: window k spans events (begin_idx, end_idx) exclusive of
/// the marks themselves.
#[derive(Clone, Debug)]
pub struct Window {
    pub id: u64,
    pub begin: usize,
    pub end: usize,
}

pub fn windows(evs: &[Ev]) -> Vec<Window> {
    let mut out = Vec::new();
    let mut open: Option<(u64, usize)> = None;
    for (i, e) in evs.iter().enumerate() {
        if let Ev::Mark { kind, id } = e {
            if *kind == crate::shim::MARK_BEGIN {
                open = Some((*id, i));
            } else if *kind == crate::shim::MARK_END {
                if let Some((bid, b)) = open.take() {
                    if bid == *id {
                        out.push(Window { id: bid, begin: b, end: i });
                    }
                }
            }
        }
    }
    out
}
