//! A second, independent reading of the on-disk format, used to AIM crash cuts and damage
//! at frame headers / payloads / block edges and to classify outcomes -- never to decide
//! a verdict on its own (DESIGN.md 2.2 "Layout parser").
//!
//!   block  = 32768 bytes; frames never cross a block; < 7 bytes left => zero padding
//!   frame  = crc32(type ++ payload) LE | len u16 LE | type u8 (1 Full 2 First 3 Middle 4 Last) | payload
//!   entry  = type u8 (1 Truncate 2 Touch 3 DeleteQueue 4 AppendRecords) | position u64 LE |
//!            name_len u16 LE | name | [ position u64 | len u32 | payload ]*

pub const BLOCK: usize = 32_768;
pub const HDR: usize = 7;

pub fn crc32(ftype: u8, payload: &[u8]) -> u32 {
    let mut h = crc32fast::Hasher::new();
    h.update(&[ftype]);
    h.update(payload);
    h.finalize()
}

#[derive(Clone, Debug, PartialEq, Eq)]
pub struct Frame {
    /// offset of the frame header within the file
    pub off: usize,
    pub len: usize,
    pub ftype: u8,
    pub crc_ok: bool,
}

impl Frame {
    pub fn payload_off(&self) -> usize {
        self.off + HDR
    }
    pub fn end(&self) -> usize {
        self.off + HDR + self.len
    }
}

/// Parse the frames of one file, block by block.  Within a block, parsing stops at an
/// all-zero header, an invalid type or a length that leaves the block.
pub fn parse_frames(data: &[u8]) -> Vec<Frame> {
    let mut out = Vec::new();
    let nblocks = data.len() / BLOCK;
    for b in 0..nblocks {
        let base = b * BLOCK;
        let mut cur = 0usize;
        while BLOCK - cur >= HDR {
            let h = &data[base + cur..base + cur + HDR];
            if h.iter().all(|x| *x == 0) {
                break;
            }
            let crc = u32::from_le_bytes([h[0], h[1], h[2], h[3]]);
            let len = u16::from_le_bytes([h[4], h[5]]) as usize;
            let ftype = h[6];
            if !(1..=4).contains(&ftype) || cur + HDR + len > BLOCK {
                break;
            }
            let payload = &data[base + cur + HDR..base + cur + HDR + len];
            out.push(Frame { off: base + cur, len, ftype, crc_ok: crc32(ftype, payload) == crc });
            cur += HDR + len;
        }
    }
    out
}

#[derive(Clone, Debug, PartialEq, Eq)]
pub struct Entry {
    /// indices into the frame list
    pub frames: Vec<usize>,
    pub etype: u8,
    pub position: u64,
    pub queue: Vec<u8>,
    /// (position, len) of each record of an AppendRecords entry
    pub records: Vec<(u64, u32)>,
    pub bytes: Vec<u8>,
}

/// Group CRC-valid frames into entries (Full, or First Middle* Last) and decode them.
/// Frames are given in stream order (files in order, frames in order).
pub fn group_entries(frames: &[(usize, Frame)], file_data: &[&[u8]]) -> Vec<Entry> {
    let mut out = Vec::new();
    let mut cur: Option<(Vec<usize>, Vec<u8>)> = None;
    for (i, (fi, f)) in frames.iter().enumerate() {
        if !f.crc_ok {
            cur = None;
            continue;
        }
        let payload = &file_data[*fi][f.payload_off()..f.end()];
        match f.ftype {
            1 => {
                cur = None;
                if let Some(e) = decode_entry(vec![i], payload.to_vec()) {
                    out.push(e);
                }
            }
            2 => cur = Some((vec![i], payload.to_vec())),
            3 => {
                if let Some((idx, buf)) = cur.as_mut() {
                    idx.push(i);
                    buf.extend_from_slice(payload);
                }
            }
            4 => {
                if let Some((mut idx, mut buf)) = cur.take() {
                    idx.push(i);
                    buf.extend_from_slice(payload);
                    if let Some(e) = decode_entry(idx, buf) {
                        out.push(e);
                    }
                }
            }
            _ => cur = None,
        }
    }
    out
}

pub fn decode_entry(frames: Vec<usize>, bytes: Vec<u8>) -> Option<Entry> {
    if bytes.len() < 11 {
        return None;
    }
    let etype = bytes[0];
    let position = u64::from_le_bytes(bytes[1..9].try_into().unwrap());
    let nlen = u16::from_le_bytes(bytes[9..11].try_into().unwrap()) as usize;
    if bytes.len() < 11 + nlen {
        return None;
    }
    let queue = bytes[11..11 + nlen].to_vec();
    let mut records = Vec::new();
    if etype == 4 {
        let mut p = 11 + nlen;
        while p < bytes.len() {
            if bytes.len() - p < 12 {
                return None;
            }
            let pos = u64::from_le_bytes(bytes[p..p + 8].try_into().unwrap());
            let l = u32::from_le_bytes(bytes[p + 8..p + 12].try_into().unwrap());
            if bytes.len() - p - 12 < l as usize {
                return None;
            }
            records.push((pos, l));
            p += 12 + l as usize;
        }
    }
    Some(Entry { frames, etype, position, queue, records, bytes })
}

/// Serialise an entry body into frames starting at block offset `cursor` of a buffer that
/// is extended as needed (used to craft CRC-valid hostile content).
pub fn write_entry(buf: &mut Vec<u8>, entry: &[u8]) {
    let mut rest = entry;
    let mut first = true;
    loop {
        let in_block = buf.len() % BLOCK;
        let mut rem = BLOCK - in_block;
        if rem < HDR {
            buf.extend(std::iter::repeat(0u8).take(rem));
            rem = BLOCK;
        }
        let take = rest.len().min(rem - HDR);
        let last = take == rest.len();
        let ftype = match (first, last) {
            (true, true) => 1u8,
            (true, false) => 2,
            (false, false) => 3,
            (false, true) => 4,
        };
        write_frame(buf, ftype, &rest[..take]);
        rest = &rest[take..];
        first = false;
        if last {
            break;
        }
    }
}

pub fn write_frame(buf: &mut Vec<u8>, ftype: u8, payload: &[u8]) {
    buf.extend_from_slice(&crc32(ftype, payload).to_le_bytes());
    buf.extend_from_slice(&(payload.len() as u16).to_le_bytes());
    buf.push(ftype);
    buf.extend_from_slice(payload);
}

pub fn entry_bytes(etype: u8, position: u64, queue: &[u8], records: &[(u64, Vec<u8>)]) -> Vec<u8> {
    let mut b = Vec::new();
    b.push(etype);
    b.extend_from_slice(&position.to_le_bytes());
    b.extend_from_slice(&(queue.len() as u16).to_le_bytes());
    b.extend_from_slice(queue);
    for (p, d) in records {
        b.extend_from_slice(&p.to_le_bytes());
        b.extend_from_slice(&(d.len() as u32).to_le_bytes());
        b.extend_from_slice(d);
    }
    b
}
