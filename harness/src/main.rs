#![allow(dead_code)]
//! mrl-verif: runtime monitors for mrecordlog properties C01..C18 (see /verif/DESIGN.md).
//!
//!   mrl-verif <Cxx> <quick|thorough>          run a check (parent: shards + evidence)
//!   mrl-verif <Cxx> --replay <file>           re-execute a recorded violating case
//!   mrl-verif __shard ...                     internal worker entry point

mod auxleg;
mod capalloc;
mod damage;
mod gen;
mod image;
mod layout;
mod monitors;
mod ops;
mod runner;
mod sacrifice;
mod shim;
mod util;

use std::os::unix::process::CommandExt;
use std::path::PathBuf;

use runner::Tier;

#[global_allocator]
static GLOBAL: capalloc::CapAlloc = capalloc::CapAlloc;

fn ensure_shim() {
    if shim::present() {
        return;
    }
    if std::env::var("VERIF_NO_REEXEC").is_ok() {
        eprintln!("INCONCLUSIVE reason=iotrace shim could not be loaded");
        std::process::exit(2);
    }
    let root = runner::verif_root();
    let so = std::env::var("VERIF_SHIM").map(PathBuf::from).unwrap_or_else(|_| root.join("build/libiotrace.so"));
    if !so.exists() {
        eprintln!("INCONCLUSIVE reason=shim {} not built (run ./setup.sh)", so.display());
        std::process::exit(2);
    }
    let exe = std::env::current_exe().expect("current_exe");
    let err = std::process::Command::new(exe)
        .args(std::env::args().skip(1))
        .env("LD_PRELOAD", &so)
        .env("VERIF_NO_REEXEC", "1")
        .env("VERIF_ROOT", &root)
        .exec();
    eprintln!("INCONCLUSIVE reason=re-exec with LD_PRELOAD failed: {}", err);
    std::process::exit(2);
}

fn usage() -> ! {
    eprintln!("usage: mrl-verif <C01..C18> <quick|thorough> | <Cxx> --replay <file>");
    std::process::exit(2);
}

fn main() {
    let args: Vec<String> = std::env::args().collect();
    if args.len() < 3 {
        usage();
    }
    if args[1] == "__aux" {
        // sanitizer workloads: no shim, no fork
        std::process::exit(auxleg::run(&args[2..]));
    }
    ensure_shim();
    shim::pause(true);
    let seed: u64 = std::env::var("VERIF_SEED").ok().and_then(|s| s.parse().ok()).unwrap_or(1);
    if args[1] == "__shard" {
        // __shard <prop> <tier> <seed> <first> <step> <end> <out>
        if args.len() != 9 {
            usage();
        }
        let mon = monitors::by_id(&args[2]).unwrap_or_else(|| usage());
        let tier = Tier::parse(&args[3]).unwrap_or_else(|| usage());
        let seed: u64 = args[4].parse().unwrap();
        let first: u64 = args[5].parse().unwrap();
        let step: u64 = args[6].parse().unwrap();
        let end: u64 = args[7].parse().unwrap();
        let code = runner::run_shard(mon.as_ref(), tier, seed, first, step, end, &PathBuf::from(&args[8]));
        std::process::exit(code);
    }
    let Some(mon) = monitors::by_id(&args[1]) else {
        eprintln!("unknown property {}", args[1]);
        usage();
    };
    if args[2] == "--replay" {
        if args.len() < 4 {
            usage();
        }
        std::process::exit(runner::run_replay(mon.as_ref(), &PathBuf::from(&args[3])));
    }
    let tier = Tier::parse(&args[2]).unwrap_or_else(|| usage());
    std::process::exit(runner::run_parent(mon.as_ref(), tier, seed));
}
