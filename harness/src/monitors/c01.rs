//! C01 -- clean restart reproduces the exact logical state.
//! Model-free: snapshot just before drop == snapshot just after open (DESIGN.md 4/C01).

use serde_json::json;

use super::common::{diff_class, Driver};
use crate::gen::Profile;
use crate::ops::{Op, Outcome, Snapshot, ALL_POLICIES};
use crate::runner::{Acc, Ctx, Monitor, Tier, REAL_BASE};
use crate::util::Rng;

pub struct C01;

impl Monitor for C01 {
    fn id(&self) -> &'static str {
        "C01"
    }
    fn level(&self) -> &'static str {
        "exploration"
    }
    fn num_cases(&self, tier: Tier) -> u64 {
        tier.pick(6_400, 300_000)
    }
    fn num_realsize_cases(&self, tier: Tier) -> u64 {
        tier.pick(0, 12)
    }
    fn floors(&self, tier: Tier) -> Vec<(&'static str, u64)> {
        vec![
            ("realsize_restarts_after_2_genuine_rollovers", tier.pick(0, 6)),
            ("restarts_checked", tier.pick(1000, 20_000)),
            ("restarts_after_gc_unlink", tier.pick(50, 1000)),
            ("restarts_with_empty_queue_at_nonzero_position", tier.pick(20, 400)),
            ("restarts_after_delete_recreate", tier.pick(10, 200)),
            ("restarts_with_multi_file_wal", tier.pick(50, 1000)),
        ]
    }
    fn rule(&self) -> String {
        "case = one generated history (profile, policy, 1..6 queues, 40..150 calls) on a fresh directory; evaluation = one restart (snapshot before drop vs. after open, plus a probe append for the next position); distinct_nontrivial = distinct (pre-restart state digest, WAL file set) pairs among restarts whose history had already rolled over to a second WAL file".into()
    }
    fn assumptions(&self) -> Vec<String> {
        vec![
            "observations are taken through the public read API; payload equality is by 64-bit content hash + length".into(),
            "4-block (128 KiB) WAL files via cargo feature `verif` (hook H1)".into(),
        ]
    }
    fn run_case(&self, ctx: &Ctx, case: u64, acc: &mut Acc) {
        let parts = ctx.case_seed(case);
        let mut rng = Rng::from_parts(&parts);
        // weight the profiles towards those that roll and GC
        let profile = *rng.pick(&[
            Profile::Gc, Profile::Gc, Profile::Gc, Profile::Idle, Profile::Idle, Profile::Idle,
            Profile::Delete, Profile::Delete, Profile::Mixed, Profile::Mixed, Profile::BigName,
            Profile::Huge, Profile::Dense, Profile::Align,
        ]);
        let policy = *rng.pick(&ALL_POLICIES);
        let real = case >= REAL_BASE;
        let profile = if real { Profile::Gc } else { profile };
        let nq = if real { rng.usize(1, 3) } else { rng.usize(1, 6) };
        let nops = if real { rng.usize(30, 50) } else { rng.usize(40, 150) };
        let dir = ctx.scratch.sub("c01");
        let key = parts[2] ^ parts[1].rotate_left(32);
        let mut d = match Driver::start(&dir, policy, key, &parts, profile, nq) {
            Ok(d) => d,
            Err(e) => {
                acc.inconclusive(format!("cannot open a fresh directory: {:?}", e));
                return;
            }
        };
        d.gen.cfg.restart_pm = 70;
        acc.count(&format!("histories_profile_{}", profile.name()));
        acc.count(&format!("histories_policy_{}", policy.name()));
        let mut unlinks_since_restart = 0u64;
        let mut deleted_ever: std::collections::HashSet<String> = Default::default();
        let mut recreated_since_restart = false;
        let mut i = 0;
        while i < nops {
            i += 1;
            let force_restart = i == nops;
            let op = if force_restart { Op::Restart } else { d.gen.next_op(Some(d.cursor)) };
            match &op {
                Op::Restart => {
                    let before = match Snapshot::take(d.sut.log()) {
                        Ok(s) => s,
                        Err(e) => {
                            acc.inconclusive(format!("snapshot failed (C05 territory): {}", e));
                            return;
                        }
                    };
                    let files_before = super::common::list_wal_files(&dir);
                    let double = rng.chance(1, 3);
                    let rounds = if double { 2 } else { 1 };
                    for round in 0..rounds {
                        let unlinks_before_open = d.io.unlinks;
                        let st = d.apply(Op::Restart);
                        if let Outcome::Err(e) = &st.outcome {
                            acc.eval();
                            acc.violation(
                                format!("C01/open-failed-after-clean-shutdown/{:?}", e),
                                case,
                                json!({"history": d.history_json(400), "round": round, "error": format!("{:?}", e)}),
                            );
                            return;
                        }
                        let after = match Snapshot::take(d.sut.log()) {
                            Ok(s) => s,
                            Err(e) => {
                                acc.eval();
                                acc.violation("C01/unreadable-state-after-restart", case, json!({"history": d.history_json(400), "error": e}));
                                return;
                            }
                        };
                        acc.eval();
                        acc.count("restarts_checked");
                        if round == 1 {
                            acc.count("second_consecutive_restarts");
                        }
                        if unlinks_since_restart > 0 {
                            acc.count("restarts_after_gc_unlink");
                        }
                        if before.queues.values().any(|q| q.recs.is_empty() && q.last_position.is_some()) {
                            acc.count("restarts_with_empty_queue_at_nonzero_position");
                        }
                        if recreated_since_restart {
                            acc.count("restarts_after_delete_recreate");
                        }
                        if files_before.len() >= 2 {
                            acc.count("restarts_with_multi_file_wal");
                        }
                        if real {
                            acc.count("realsize_restarts");
                            acc.max("max_realsize_file_bytes", files_before.iter().map(|f| f.1).max().unwrap_or(0));
                            if files_before.last().map(|f| f.0).unwrap_or(0) >= 2 {
                                acc.count("realsize_restarts_after_2_genuine_rollovers");
                            }
                        }
                        acc.max("max_wal_files_at_restart", files_before.len() as u64);
                        acc.max("max_queues_at_restart", before.queues.len() as u64);
                        acc.max("max_records_at_restart", before.num_records() as u64);
                        if files_before.last().map(|f| f.0).unwrap_or(0) >= 1 {
                            let mut h = before.digest();
                            for f in &files_before {
                                h = crate::util::hash_combine(h, f.0);
                            }
                            acc.distinct(h);
                        }
                        if let Some(diff) = before.diff(&after) {
                            acc.violation(
                                format!("C01/restart-changes-state/{}", diff_class(&before, &after)),
                                case,
                                json!({
                                    "history": d.history_json(400), "round": round, "diff": diff,
                                    "before": before.to_json(), "after": after.to_json(),
                                    "wal_files_before": files_before.iter().map(|f| f.0).collect::<Vec<_>>(),
                                }),
                            );
                            return;
                        }
                        // unlinks done by this open's own GC pass matter for the next restart
                        unlinks_since_restart = d.io.unlinks - unlinks_before_open;
                    }
                    // behavioural next position: probe append on a random existing queue
                    let names: Vec<String> = before.queues.keys().cloned().collect();
                    if !names.is_empty() && rng.chance(1, 2) {
                        let q = rng.pick(&names).clone();
                        let expect = before.queues[&q].last_position.map(|p| p + 1).unwrap_or(0);
                        let probe = Op::Append { q: q.clone(), pos: None, lens: vec![rng.usize(0, 40)], chained: false };
                        d.gen.note_external(&probe);
                        let st = d.apply(probe);
                        acc.eval();
                        acc.count("probe_appends_after_restart");
                        match st.outcome {
                            Outcome::Appended { last: Some(p), .. } if p == expect => {}
                            other => {
                                acc.violation(
                                    "C01/next-position-after-restart",
                                    case,
                                    json!({"history": d.history_json(400), "queue": crate::ops::short(&q), "expected_position": expect, "outcome": other.to_json()}),
                                );
                                return;
                            }
                        }
                    }
                    recreated_since_restart = false;
                    acc.sample(|| json!({"case": case, "history_excerpt": d.history_json(12), "state_at_restart": before.to_json(), "wal_files": files_before.iter().map(|f| f.0).collect::<Vec<_>>()}));
                }
                _ => {
                    let before_unlinks = d.io.unlinks;
                    let st = d.apply(op.clone());
                    unlinks_since_restart += d.io.unlinks - before_unlinks;
                    acc.count(&format!("calls_{}", op.kind()));
                    match (&op, &st.outcome) {
                        (Op::Delete { q }, Outcome::Deleted { .. }) => {
                            deleted_ever.insert(q.clone());
                        }
                        (Op::Create { q }, Outcome::Created { .. }) => {
                            if deleted_ever.contains(q) {
                                recreated_since_restart = true;
                            }
                        }
                        _ => {}
                    }
                    if st.outcome.is_io_err() {
                        acc.inconclusive(format!("I/O error from a live call: {:?}", st.outcome));
                        return;
                    }
                }
            }
        }
        acc.add("wal_files_created", d.io.creates);
        acc.add("wal_files_unlinked", d.io.unlinks);
        if d.io.unmodelled > 0 {
            acc.count("histories_with_unmodelled_syscalls");
        }
    }
}
