//! C02 -- a crash at any instant recovers to an atomic, consistent prefix
//! (process-crash model, flush-per-operation policies).  DESIGN.md 4/C02.

use serde_json::{json, Value};

use super::crash::*;
use crate::gen::Profile;
use crate::image::{windows, Builder, Image, Window};
use crate::ops::{ErrKind, Policy};
use crate::runner::{Acc, Ctx, Monitor, Tier, DEV_BASE};
use crate::shim::Ev;
use crate::util::{hash_combine, Rng};

pub struct C02;

pub fn op_kind_of(run: &LiveRun, w: &Window) -> &'static str {
    if w.id == u64::MAX {
        "initial-open"
    } else {
        run.ops[w.id as usize].kind()
    }
}

pub fn recovered_sig(r: &Recovered) -> String {
    match r {
        Recovered::Ok(_) => "ok".into(),
        Recovered::OpenErr(ErrKind::Io(k)) => format!("open-err:Io({})", k),
        Recovered::OpenErr(e) => format!("open-err:{:?}", e),
        Recovered::Panic(_) => "open-panicked".into(),
        Recovered::ReadApiErr(_) => "read-api-inconsistent".into(),
    }
}

struct Judge<'a> {
    run: &'a LiveRun,
    case: u64,
    lo: usize,
    hi: usize,
    opkind: &'static str,
    evkind: String,
    point: Value,
}

impl<'a> Judge<'a> {
    fn sig(&self, what: &str) -> String {
        format!("C02/{}/{}/after:{}", what, self.opkind, self.evkind)
    }
    fn detail(&self, extra: Value) -> Value {
        json!({
            "history": self.run.history_json(self.hi.min(self.run.ops.len())),
            "crash_point": self.point,
            "allowed_states": format!("state after {} .. {} completed calls", self.lo, self.hi),
            "state_before_call": self.run.states[self.lo].to_json(),
            "state_after_call": self.run.states[self.hi].to_json(),
            "observation": extra,
        })
    }
    /// Judge one recovered state; returns the class when it is acceptable.
    fn judge(&self, r: &Recovered, acc: &mut Acc, level: &str) -> Option<Class> {
        acc.eval();
        match r {
            Recovered::Ok(s) => match classify(s, &self.run.states, self.lo, self.hi) {
                Some(c) => {
                    match &c {
                        Class::Exact(j) if *j == self.hi && self.hi != self.lo => acc.count(&format!("{}recovered_all_of_inflight_call", level)),
                        Class::Exact(_) if self.hi != self.lo => acc.count(&format!("{}recovered_none_of_inflight_call", level)),
                        Class::Exact(_) => acc.count(&format!("{}recovered_exact_between_effects", level)),
                        Class::Partial(_) => acc.count(&format!("{}recovered_partial_truncate_or_delete", level)),
                    }
                    Some(c)
                }
                None => {
                    let nearest = &self.run.states[self.hi];
                    acc.violation(
                        self.sig(&format!("{}state-not-a-prefix/{}", level, super::common::diff_class(nearest, s))),
                        self.case,
                        self.detail(json!({"recovered": s.to_json(), "diff_vs_state_after_call": nearest.diff(s), "diff_vs_state_before_call": self.run.states[self.lo].diff(s)})),
                    );
                    None
                }
            },
            other => {
                let msg = match other {
                    Recovered::Panic(m) => m.clone(),
                    Recovered::ReadApiErr(m) => m.clone(),
                    Recovered::OpenErr(e) => format!("{:?}", e),
                    _ => String::new(),
                };
                acc.violation(self.sig(&format!("{}{}", level, recovered_sig(other))), self.case, self.detail(json!({"open_result": recovered_sig(other), "message": msg})));
                None
            }
        }
    }
}

impl Monitor for C02 {
    fn id(&self) -> &'static str {
        "C02"
    }
    fn level(&self) -> &'static str {
        "fault_enumeration"
    }
    fn num_cases(&self, tier: Tier) -> u64 {
        tier.pick(480, 12_000)
    }
    fn num_dev_cases(&self, tier: Tier) -> u64 {
        tier.pick(24, 400)
    }
    fn floors(&self, tier: Tier) -> Vec<(&'static str, u64)> {
        vec![
            ("crash_images_recovered", tier.pick(50_000, 1_000_000)),
            ("crash_points_torn_write", tier.pick(20_000, 400_000)),
            ("crash_points_inside_rollover_window", tier.pick(2_000, 40_000)),
            ("continuations_run", tier.pick(1_500, 30_000)),
            ("second_crash_images_recovered", tier.pick(1_000, 20_000)),
            ("recovered_partial_truncate_or_delete", 0),
            ("real_sigkill_images_recovered", tier.pick(200, 5_000)),
        ]
    }
    fn rule(&self) -> String {
        "case = one generated history (6..36 calls, Always(Flush|FlushAndFsync)) traced at the syscall boundary; evaluation = one recovery (open + full read-back) of a directory image rebuilt at a crash point: after every file-system effect, and inside every write at frame-relative byte cuts (thorough: every byte of writes <= 4 KiB); plus second-level crash points inside the recovery's own effects, plus continuation histories (lock-step with the model + 2 restarts) on sampled recovered logs; plus, on a third of the cases, the same history replayed in a forked child that is really SIGKILLed at a random moment (its directory judged by the same oracle: cross-validation of the trace-based image model); distinct_nontrivial = distinct (case, effect index, byte cut) crash points that are torn writes or whose image holds >= 2 WAL files".into()
    }
    fn assumptions(&self) -> Vec<String> {
        vec![
            "process-crash model: completed syscalls are in the image, in program order; a torn write keeps a byte prefix".into(),
            "acceptance set = states observed live through the read API (model-free); continuation uses the sequential model".into(),
            "any syscall the image builder cannot model makes the case inconclusive, never a violation".into(),
        ]
    }
    fn exhaustive(&self, _tier: Tier) -> bool {
        false
    }
    fn run_case(&self, ctx: &Ctx, case: u64, acc: &mut Acc) {
        quiet_panics();
        let parts = ctx.case_seed(case);
        let mut rng = Rng::from_parts(&parts);
        let profile = *rng.pick(&[
            Profile::Gc, Profile::Gc, Profile::Gc, Profile::Gc, Profile::Idle, Profile::Idle, Profile::Dense,
            Profile::Delete, Profile::Mixed, Profile::BigName, Profile::Align, Profile::Align, Profile::Align, Profile::Huge,
        ]);
        let policy = if rng.chance(2, 3) { Policy::AlwaysFlush } else { Policy::AlwaysFsync };
        let nq = rng.usize(1, 4);
        let nops = match profile {
            Profile::Huge => rng.usize(4, 10),
            Profile::Dense => rng.usize(20, 60),
            _ => rng.usize(6, 36),
        };
        let live_dir = ctx.scratch.sub("c02-live");
        let key = parts[2] ^ parts[1].rotate_left(32);
        let run = match live_run(&live_dir, policy, key, &parts, profile, nq, nops, |c| {
            c.restart_pm = 25;
            c.persist_pm = 10;
            c.bad_pm = 20;
        }) {
            Ok(r) => r,
            Err(e) => {
                acc.inconclusive(format!("live run failed: {}", e));
                return;
            }
        };
        crate::util::clear_dir(&live_dir);
        acc.count(&format!("histories_profile_{}", profile.name()));
        if case >= DEV_BASE {
            acc.count("histories_dev_profile_build");
        }
        explore(ctx, case, &run, &mut rng, acc);
        // cross-validation of the trace-based crash model against REAL process deaths
        if case % 3 == 0 {
            kill_leg(ctx, case, &run, &mut rng, acc);
        }
    }
}

/// Re-run the same history in a forked child (no tracing) and SIGKILL it at a random
/// moment; the directory it leaves behind IS a process-crash image (the page cache is
/// coherent).  The child reports every completed call through a pipe, so the parent knows
/// which call was in flight.  The recovered state must satisfy the same oracle as the
/// reconstructed images.
fn kill_leg(ctx: &Ctx, case: u64, run: &LiveRun, rng: &mut Rng, acc: &mut Acc) {
    use std::io::Read;
    use std::os::unix::io::FromRawFd;
    if run.profile == Profile::Align {
        return; // generated with cursor feedback; the child replays the recorded op list anyway
    }
    let dir = ctx.scratch.sub("c02-kill");
    for attempt in 0..3u64 {
        crate::util::clear_dir(&dir);
        let mut fds = [0i32; 2];
        if unsafe { libc::pipe(fds.as_mut_ptr()) } != 0 {
            return;
        }
        let pid = unsafe { libc::fork() };
        if pid < 0 {
            return;
        }
        if pid == 0 {
            // child: replay the recorded operations, report each completed call
            unsafe { libc::close(fds[0]) };
            crate::shim::pause(true);
            let mut sut = match crate::ops::Sut::open(&dir, run.policy, run.key, false) {
                Ok(s) => s,
                Err(_) => unsafe { libc::_exit(3) },
            };
            let one = [0xFFu8; 1];
            unsafe { libc::write(fds[1], one.as_ptr() as *const libc::c_void, 1) };
            for (k, op) in run.ops.iter().enumerate() {
                let _ = sut.apply(k, op);
                let b = (k as u32).to_le_bytes();
                unsafe { libc::write(fds[1], b.as_ptr() as *const libc::c_void, 4) };
            }
            // linger so that the parent always kills a live process
            std::thread::sleep(std::time::Duration::from_millis(200));
            unsafe { libc::_exit(0) };
        }
        unsafe { libc::close(fds[1]) };
        // kill after a random delay (the history takes a few ms)
        let delay_us = rng.range(0, 400 * (1 + run.ops.len() as u64));
        std::thread::sleep(std::time::Duration::from_micros(delay_us));
        unsafe {
            libc::kill(pid, libc::SIGKILL);
            let mut st = 0;
            libc::waitpid(pid, &mut st, 0);
        }
        let mut reported = Vec::new();
        let mut f = unsafe { std::fs::File::from_raw_fd(fds[0]) };
        let _ = f.read_to_end(&mut reported);
        if reported.is_empty() {
            acc.count("real_kills_before_the_first_open_completed");
            // the initial open itself was in flight: must recover to the empty log
        }
        let completed = if reported.len() > 1 { (reported.len() - 1) / 4 } else { 0 };
        // calls 0..completed returned; call `completed` may be in flight (or not started)
        let lo = completed;
        let hi = (completed + 1).min(run.ops.len());
        let (r, sut, _evs) = recover(&dir, run.policy, run.key);
        if let Some(mut s) = sut {
            s.trace = false;
            drop(s);
        }
        acc.eval();
        acc.count("real_sigkill_images_recovered");
        let opkind = if completed < run.ops.len() { run.ops[completed].kind() } else { "after-last-call" };
        let j = Judge {
            run,
            case,
            lo,
            hi,
            opkind,
            evkind: "real-SIGKILL".into(),
            point: json!({"real_process_killed_after_us": delay_us, "calls_completed_before_the_kill": completed, "attempt": attempt}),
        };
        if j.judge(&r, acc, "real-kill/").is_none() {
            return;
        }
    }
}

/// Enumerate the crash points of a recorded run and judge every recovery.
fn explore(ctx: &Ctx, case: u64, run: &LiveRun, rng: &mut Rng, acc: &mut Acc) {
    let wins = windows(&run.events);
    let dense = ctx.tier == Tier::Thorough && rng.chance(1, 4);
    let rec_dir = ctx.scratch.sub("c02-rec");
    let rec2_dir = ctx.scratch.sub("c02-rec2");
    let mut mat = Mat::new(&rec_dir);
    let mut b = Builder::new(run.initial.clone());
    let mut violations_here = 0u32;
    // last mutating event of each window
    let last_mut: Vec<Option<usize>> = wins.iter().map(|w| (w.begin + 1..w.end).rev().find(|i| run.events[*i].mutates())).collect();
    let has_create: Vec<bool> = wins
        .iter()
        .map(|w| (w.begin + 1..w.end).any(|i| matches!(&run.events[i], Ev::Open { flags, err: 0, .. } if flags & (libc::O_CREAT as u32) != 0)))
        .collect();
    let mut second_budget = if ctx.tier == Tier::Thorough { 400 } else { 120 };
    let mut cont_budget = if ctx.tier == Tier::Thorough { 60 } else { 24 };

    for wi in 0..wins.len() {
        let w = &wins[wi];
        let (lo, hi) = if w.id == u64::MAX { (0, 0) } else { (w.id as usize, w.id as usize + 1) };
        let opkind = op_kind_of(run, w);
        for i in w.begin + 1..w.end {
            let ev = &run.events[i];
            // torn writes of this event
            if let Ev::Write { name, off, data, .. } = ev {
                if !data.is_empty() && b.cur.files.contains_key(name) {
                    let cuts = cuts_for_write(*off, data, rng, dense);
                    let saved = b.cur.files.get(name).cloned().unwrap();
                    for c in cuts {
                        {
                            let f = b.cur.files.get_mut(name).unwrap();
                            f.clone_from(&saved);
                            let end = *off as usize + c;
                            if f.len() < end {
                                f.resize(end, 0);
                            }
                            f[*off as usize..end].copy_from_slice(&data[..c]);
                        }
                        mat.mark_dirty(name);
                        let j = Judge { run, case, lo, hi, opkind, evkind: "torn-write".into(), point: json!({"inside_call": w.id as i64, "call": opkind, "effect_index": i, "effect": ev.brief(), "bytes_of_write_applied": c}) };
                        acc.count("crash_points_torn_write");
                        acc.distinct(hash_combine(hash_combine(case, i as u64), c as u64 + 1));
                        let ok = one_point(ctx, &mut mat, &b.cur, run, &j, acc, rng, has_create[wi], &mut second_budget, &mut cont_budget, &rec2_dir);
                        if !ok {
                            violations_here += 1;
                        }
                        if violations_here >= 3 {
                            return;
                        }
                    }
                    b.cur.files.insert(name.clone(), saved);
                    mat.mark_dirty(name);
                }
            }
            if let Some(n) = touched_name(ev) {
                mat.mark_dirty(n);
            }
            b.apply(ev);
            if !b.unmodelled.is_empty() {
                acc.inconclusive(format!("unmodelled file-system call in the trace: {}", b.unmodelled[0]));
                return;
            }
            if !ev.mutates() {
                continue;
            }
            let completed = last_mut[wi] == Some(i);
            let (plo, phi) = if completed { (hi, hi) } else { (lo, hi) };
            let j = Judge { run, case, lo: plo, hi: phi, opkind, evkind: ev.kind_name().into(), point: json!({"inside_call": w.id as i64, "call": opkind, "effect_index": i, "after_effect": ev.brief(), "all_effects_of_call_done": completed}) };
            acc.count(&format!("crash_points_after_{}_in_{}", ev.kind_name(), opkind));
            if has_create[wi] {
                acc.count("crash_points_inside_rollover_window");
            }
            if b.cur.files.len() >= 2 {
                acc.distinct(hash_combine(hash_combine(case, i as u64), 0));
            }
            let ok = one_point(ctx, &mut mat, &b.cur, run, &j, acc, rng, has_create[wi], &mut second_budget, &mut cont_budget, &rec2_dir);
            if !ok {
                violations_here += 1;
            }
            if violations_here >= 3 {
                return;
            }
        }
    }
    acc.sample(|| {
        json!({
            "case": case, "history": run.history_json(run.ops.len().min(14)),
            "trace_effects": run.events.iter().filter(|e| e.mutates()).take(30).map(|e| e.brief()).collect::<Vec<_>>(),
            "effects_total": run.events.iter().filter(|e| e.mutates()).count(),
        })
    });
}

/// Recover one image; judge it; optionally second crash + continuation.  Returns false
/// when a violation was recorded.
#[allow(clippy::too_many_arguments)]
fn one_point(
    _ctx: &Ctx,
    mat: &mut Mat,
    img: &Image,
    run: &LiveRun,
    j: &Judge,
    acc: &mut Acc,
    rng: &mut Rng,
    in_rollover: bool,
    second_budget: &mut i32,
    cont_budget: &mut i32,
    rec2_dir: &std::path::Path,
) -> bool {
    mat.sync(img);
    let (r, sut, evs) = recover(&mat.dir, run.policy, run.key);
    mat.touched_by(&evs);
    acc.count("crash_images_recovered");
    let class = j.judge(&r, acc, "");
    let Some(class) = class else {
        finish(sut, mat);
        return false;
    };
    let mut ok = true;
    let recovery_mutates = evs.iter().any(|e| e.mutates());
    if recovery_mutates {
        acc.count("recoveries_that_wrote_or_unlinked");
    }
    let Recovered::Ok(rsnap) = &r else { unreachable!() };

    // continuation on the recovered log
    let want_cont = *cont_budget > 0 && (in_rollover && rng.chance(1, 2) || rng.chance(1, 60));
    let mut sut = sut;
    if want_cont {
        *cont_budget -= 1;
        if let Some(s) = sut.as_mut() {
            let n = rng.usize(3, 12);
            let seed = [run.key, j.lo as u64, rng.next()];
            let res = continuation(s, rsnap, &seed, n, run.file_size, 100_000);
            let cevs = crate::shim::take_events(&mat.dir);
            crate::shim::reset();
            mat.touched_by(&cevs);
            acc.eval();
            acc.count("continuations_run");
            if in_rollover {
                acc.count("continuations_after_crash_in_rollover_window");
            }
            match res {
                Ok(n) => acc.add("continuation_calls_checked", n),
                Err((what, detail)) => {
                    acc.violation(j.sig(&what), j.case, j.detail(json!({"recovered_class": format!("{:?}", class), "recovered": rsnap.to_json(), "continuation": detail})));
                    ok = false;
                }
            }
        }
    }
    finish(sut.take(), mat);

    // second crash inside the recovery's own effects
    if ok && recovery_mutates && *second_budget > 0 {
        let mut b2 = Builder::new(img.clone());
        let mut mat2 = Mat::new(rec2_dir);
        for (i2, e2) in evs.iter().enumerate() {
            let mut points: Vec<(Option<usize>, String)> = Vec::new();
            if let Ev::Write { name, off, data, .. } = e2 {
                if data.len() > 1 && b2.cur.files.contains_key(name) {
                    let cuts = cuts_for_write(*off, data, rng, false);
                    for c in cuts.into_iter().take(6) {
                        points.push((Some(c), "torn-write".into()));
                    }
                }
            }
            for (cut, kind) in points {
                let Ev::Write { name, off, data, .. } = e2 else { continue };
                let saved = b2.cur.files.get(name).cloned().unwrap();
                {
                    let c = cut.unwrap();
                    let f = b2.cur.files.get_mut(name).unwrap();
                    let end = *off as usize + c;
                    if f.len() < end {
                        f.resize(end, 0);
                    }
                    f[*off as usize..end].copy_from_slice(&data[..c]);
                }
                mat2.mark_dirty(name);
                ok &= second_point(&mut mat2, &b2.cur, run, j, acc, i2, &kind, e2);
                b2.cur.files.insert(name.clone(), saved);
                mat2.mark_dirty(name);
                *second_budget -= 1;
            }
            if let Some(n) = touched_name(e2) {
                mat2.mark_dirty(n);
            }
            b2.apply(e2);
            if e2.mutates() {
                ok &= second_point(&mut mat2, &b2.cur, run, j, acc, i2, e2.kind_name(), e2);
                *second_budget -= 1;
            }
            if !ok || *second_budget <= 0 {
                break;
            }
        }
    }
    ok
}

#[allow(clippy::too_many_arguments)]
fn second_point(mat2: &mut Mat, img: &Image, run: &LiveRun, j: &Judge, acc: &mut Acc, i2: usize, kind: &str, e2: &Ev) -> bool {
    mat2.sync(img);
    let (r2, sut2, evs2) = recover(&mat2.dir, run.policy, run.key);
    mat2.touched_by(&evs2);
    finish(sut2, mat2);
    acc.count("second_crash_images_recovered");
    acc.count(&format!("second_crash_after_{}", kind));
    let j2 = Judge {
        run: j.run,
        case: j.case,
        lo: j.lo,
        hi: j.hi,
        opkind: j.opkind,
        evkind: format!("{}+recovery:{}", j.evkind, kind),
        point: json!({"first_crash": j.point, "second_crash_inside_recovery": {"effect_index": i2, "effect": e2.brief(), "kind": kind}}),
    };
    j2.judge(&r2, acc, "second-crash/").is_some()
}

/// Shut a recovered log down inside a traced window so that `mat` learns what the
/// shutdown flushed.
pub fn finish(sut: Option<crate::ops::Sut>, mat: &mut Mat) {
    if let Some(mut s) = sut {
        s.close(u64::MAX - 1);
        let evs = crate::shim::take_events(&mat.dir);
        crate::shim::reset();
        mat.touched_by(&evs);
    }
}
