//! C03 -- persisted operations survive any later crash, under every policy, under two
//! loss models (process crash: unflushed bytes lost; power loss: unsynced bytes lost).
//! DESIGN.md 4/C03.

use serde_json::json;

use super::c02::{finish, op_kind_of, recovered_sig};
use super::crash::*;
use crate::gen::Profile;
use crate::image::{windows, Builder, Image, NeverSynced};
use crate::ops::{Op, Outcome, Policy};
use crate::runner::{Acc, Ctx, Monitor, Tier};
use crate::shim::Ev;
use crate::util::{hash_combine, Rng};

pub struct C03;

const POLICIES: [Policy; 5] = [
    Policy::DoNothing,
    Policy::DelayLongFlush,
    Policy::DelayLongFsync,
    Policy::AlwaysFlush,
    Policy::AlwaysFsync,
];

/// Is call `k` persisted on return, by the API contract, under the given loss model?
fn persisted_by_contract(policy: Policy, op: &Op, out: &Outcome, power: bool) -> bool {
    let ok = !matches!(out, Outcome::Err(_));
    match op {
        Op::Create { .. } | Op::Delete { .. } => ok,
        Op::Persist { fsync } => ok && (!power || *fsync),
        Op::Append { .. } | Op::Truncate { .. } => {
            // a rejected / no-op call persists nothing new, but under an Always policy it
            // does not un-persist anything either: it is simply not a frontier
            let wrote = match out {
                Outcome::Appended { last: Some(_), .. } | Outcome::Truncated { .. } => true,
                _ => false,
            };
            wrote && if power { policy == Policy::AlwaysFsync } else { policy.always() }
        }
        Op::Restart => false,
    }
}

impl Monitor for C03 {
    fn id(&self) -> &'static str {
        "C03"
    }
    fn level(&self) -> &'static str {
        "fault_enumeration"
    }
    fn num_cases(&self, tier: Tier) -> u64 {
        tier.pick(4_800, 60_000)
    }
    fn floors(&self, tier: Tier) -> Vec<(&'static str, u64)> {
        vec![
            ("images_process_crash", tier.pick(20_000, 400_000)),
            ("images_power_loss", tier.pick(40_000, 800_000)),
            ("crash_points_after_unlink", tier.pick(1_000, 20_000)),
            ("crash_points_with_unflushed_calls", tier.pick(5_000, 100_000)),
            ("recovered_older_than_last_call_but_at_or_after_frontier", tier.pick(2_000, 40_000)),
            ("recoveries_continued_with_a_persisted_call_and_a_restart", tier.pick(5_000, 100_000)),
            ("fsync_faults_reported_by_the_call_they_hit", tier.pick(300, 6_000)),
        ]
    }
    fn rule(&self) -> String {
        "case = one generated history (8..40 calls with explicit persist calls) under one of DoNothing / OnDelay(1h,Flush) / OnDelay(1h,FlushAndFsync) / Always(Flush) / Always(FlushAndFsync); evaluation = one recovery of an image rebuilt at a crash point (after every file-system effect, plus sampled torn writes) under the process-crash model or one of the power-loss variants (never-synced file absent / zero-length / zero-filled; none or a prefix of the unsynced writes surviving); oracle: recovered state == state observed live after j calls for some j between the persist frontier (computed from the API contract only) and the in-flight call, up to a partially applied truncate/delete; one recovery in twelve (one in four of the images that end inside an entry of several frames) goes on with two create_queue calls + an append + persist(FlushAndFsync) on the recovered log and a clean restart, after which that queue and record must be there; plus, on one case in three, a replay of the same calls in which one fsync/fdatasync fails once with EIO: the call it hits must return an I/O error; distinct_nontrivial = distinct (case, effect index, loss model variant) whose frontier is at least one call behind the crash".into()
    }
    fn assumptions(&self) -> Vec<String> {
        vec![
            "power loss is SIMULATED from the syscall trace: per file only fsync-covered bytes survive, directory entries survive only if the directory was fsynced after their creation (variant), unlinks are durable at once".into(),
            "acceptance set built from states observed live (model-free)".into(),
        ]
    }
    fn run_case(&self, ctx: &Ctx, case: u64, acc: &mut Acc) {
        quiet_panics();
        let parts = ctx.case_seed(case);
        let mut rng = Rng::from_parts(&parts);
        let policy = POLICIES[(case % 5) as usize];
        let mut profile = *rng.pick(&[Profile::Gc, Profile::Gc, Profile::Gc, Profile::Idle, Profile::Idle, Profile::Delete, Profile::Mixed, Profile::Dense, Profile::BigName, Profile::BigName]);
        // under flush-per-call policies the write cursor is known: aim entries (control
        // entries included) at block and file ends on a third of those cases
        if policy.always() && rng.chance(1, 3) {
            profile = Profile::Align;
        }
        let nq = if matches!(profile, Profile::Idle | Profile::BigName) { rng.usize(2, 7) } else { rng.usize(1, 4) };
        let nops = if profile == Profile::Dense { rng.usize(20, 60) } else if matches!(profile, Profile::Idle | Profile::BigName) { rng.usize(20, 50) } else { rng.usize(8, 40) };
        let live_dir = ctx.scratch.sub("c03-live");
        let key = parts[2] ^ parts[1].rotate_left(32);
        let run = match live_run(&live_dir, policy, key, &parts, profile, nq, nops, |c| {
            c.restart_pm = 15;
            c.persist_pm = 90;
            c.bad_pm = 15;
        }) {
            Ok(r) => r,
            Err(e) => {
                acc.inconclusive(format!("live run failed: {}", e));
                return;
            }
        };
        crate::util::clear_dir(&live_dir);
        // ---- fsync-fault leg (one case in three) -----------------------------------------------
        // "Persisted" presupposes that the sync succeeded: replay the same calls with ONE
        // fsync / fdatasync of the run failing (EIO, once). The call during which the failure
        // is delivered promised durability it did not get, so it must report an I/O error.
        if case % 3 == 0 {
            let total_syncs = run.events.iter().filter(|e| matches!(e, Ev::Fsync { .. })).count() as i64;
            if total_syncs > 0 {
                let nth = 1 + rng.below(total_syncs as u64) as i64;
                let fdir = ctx.scratch.sub("c03-fsync-fault");
                crate::util::clear_dir(&fdir);
                crate::shim::reset_all();
                crate::shim::set_root(&fdir);
                crate::shim::fault(crate::shim::CL_FSYNC, nth, libc::EIO, false);
                let opened = crate::ops::Sut::open(&fdir, policy, key, true);
                let mut delivered = crate::shim::delivered();
                acc.eval();
                acc.count("fsync_fault_replays");
                match opened {
                    Err(_) => {
                        acc.count("fsync_faults_reported_by_the_call_they_hit");
                    }
                    Ok(mut sut) => {
                        if delivered > 0 {
                            acc.violation("C03/fsync-failure-swallowed/open", case, json!({"history": run.history_json(0), "failing_sync_number": nth, "policy": policy.name()}));
                            crate::shim::reset_all();
                            return;
                        }
                        for (k, op) in run.ops.iter().enumerate() {
                            let out = sut.apply(k, op);
                            let now = crate::shim::delivered();
                            if now > delivered {
                                delivered = now;
                                if out.is_io_err() {
                                    acc.count("fsync_faults_reported_by_the_call_they_hit");
                                } else {
                                    acc.violation(
                                        format!("C03/fsync-failure-swallowed/{}", op.kind()),
                                        case,
                                        json!({"history": run.history_json(k + 1), "call": op.to_json(), "outcome": out.to_json(), "failing_sync_number": nth, "policy": policy.name(), "violated": "a sync of this call failed with EIO, yet the call returned success"}),
                                    );
                                    drop(sut);
                                    crate::shim::reset_all();
                                    return;
                                }
                                break;
                            }
                            if out.is_io_err() {
                                break;
                            }
                        }
                        drop(sut);
                    }
                }
                crate::shim::reset_all();
            }
        }
        acc.count(&format!("histories_policy_{}", policy.name()));
        acc.count(&format!("histories_profile_{}", profile.name()));

        let wins = windows(&run.events);
        // frontier[k] = highest state index persisted by calls 0..k (exclusive), per model
        let n = run.ops.len();
        let mut fr_proc = vec![0usize; n + 1];
        let mut fr_pow = vec![0usize; n + 1];
        for k in 0..n {
            fr_proc[k + 1] = if persisted_by_contract(policy, &run.ops[k], &run.outcomes[k], false) { k + 1 } else { fr_proc[k] };
            fr_pow[k + 1] = if persisted_by_contract(policy, &run.ops[k], &run.outcomes[k], true) { k + 1 } else { fr_pow[k] };
        }
        let rec_dir = ctx.scratch.sub("c03-rec");
        let mut mat = Mat::new(&rec_dir);
        let mut b = Builder::new(run.initial.clone());
        let mut violations_here = 0;
        let last_mut: Vec<Option<usize>> = wins.iter().map(|w| (w.begin + 1..w.end).rev().find(|i| run.events[*i].mutates())).collect();
        let ns_variants = [NeverSynced::Absent, NeverSynced::ZeroLen, NeverSynced::ZeroFilled];
        let mut point_no = 0u64;

        for (wi, w) in wins.iter().enumerate() {
            let opkind = op_kind_of(&run, w);
            let k = if w.id == u64::MAX { None } else { Some(w.id as usize) };
            for i in w.begin + 1..w.end {
                let ev = &run.events[i];
                // sampled torn write (process model only; power loss has its own prefix variant)
                let mut torn: Option<(String, usize, Vec<u8>)> = None;
                if let Ev::Write { name, off, data, .. } = ev {
                    if data.len() > 1 && b.cur.files.contains_key(name) && rng.chance(1, 3) {
                        let cuts = cuts_for_write(*off, data, &mut rng, false);
                        if !cuts.is_empty() {
                            let c = *rng.pick(&cuts);
                            let saved = b.cur.files.get(name).cloned().unwrap();
                            let f = b.cur.files.get_mut(name).unwrap();
                            let end = *off as usize + c;
                            if f.len() < end {
                                f.resize(end, 0);
                            }
                            f[*off as usize..end].copy_from_slice(&data[..c]);
                            torn = Some((name.clone(), c, saved));
                        }
                    }
                }
                if let Some((name, c, saved)) = torn {
                    let (lo, hi) = match k {
                        None => (0, 0),
                        Some(k) => (fr_proc[k], k + 1),
                    };
                    mat.mark_dirty(&name);
                    let img = b.cur.clone();
                    acc.count("crash_points_torn_write");
                    let ok = judge_image(&run, case, &mut mat, &img, lo, hi, opkind, "torn-write", "process-crash", json!({"inside_call": k, "effect_index": i, "effect": ev.brief(), "bytes_of_write_applied": c}), acc);
                    b.cur.files.insert(name.clone(), saved);
                    mat.mark_dirty(&name);
                    if !ok {
                        violations_here += 1;
                    }
                }
                if let Some(nm) = touched_name(ev) {
                    mat.mark_dirty(nm);
                }
                b.apply(ev);
                if !b.unmodelled.is_empty() {
                    acc.inconclusive(format!("unmodelled file-system call in the trace: {}", b.unmodelled[0]));
                    return;
                }
                // crash points: after every effect, and after every fsync (durability changes)
                let interesting = ev.mutates() || matches!(ev, Ev::Fsync { .. });
                if !interesting {
                    continue;
                }
                point_no += 1;
                let completed = last_mut[wi] == Some(i) || (last_mut[wi].map(|l| i > l).unwrap_or(true));
                let hi = match k {
                    None => 0,
                    Some(k) => k + 1,
                };
                // frontier: calls that returned before this point
                let (lo_proc, lo_pow) = match k {
                    None => (0, 0),
                    Some(k) => (fr_proc[k], fr_pow[k]),
                };
                let _ = completed;
                if matches!(ev, Ev::Unlink { .. }) {
                    acc.count("crash_points_after_unlink");
                }
                if hi > lo_proc + 1 {
                    acc.count("crash_points_with_unflushed_calls");
                }
                let evk = ev.kind_name();
                let point = json!({"inside_call": k, "call": opkind, "effect_index": i, "after_effect": ev.brief()});
                // process crash
                if ev.mutates() {
                    let img = b.process_image().clone();
                    acc.count("images_process_crash");
                    if hi > lo_proc {
                        acc.distinct(hash_combine(hash_combine(case, i as u64), 1));
                    }
                    if !judge_image(&run, case, &mut mat, &img, lo_proc, hi, opkind, evk, "process-crash", point.clone(), acc) {
                        violations_here += 1;
                    }
                }
                // power loss: one never-synced variant per point (rotating), nothing unsynced
                // surviving; plus, on some points, a prefix of the unsynced writes surviving
                let ns = ns_variants[(point_no % 3) as usize];
                let img = b.power_image(ns, 0);
                mat.invalidate_all();
                acc.count("images_power_loss");
                acc.count(&format!("images_power_loss_{:?}", ns));
                if hi > lo_pow {
                    acc.distinct(hash_combine(hash_combine(case, i as u64), 2 + (point_no % 3)));
                }
                if !judge_image(&run, case, &mut mat, &img, lo_pow, hi, opkind, evk, &format!("power-loss/{:?}", ns), point.clone(), acc) {
                    violations_here += 1;
                }
                let u = b.unsynced_len();
                if u > 0 && rng.chance(1, 2) {
                    let keep = rng.usize(1, u);
                    let ns2 = *rng.pick(&ns_variants);
                    let img = b.power_image(ns2, keep);
                    acc.count("images_power_loss");
                    acc.count("images_power_loss_unsynced_prefix_survives");
                    if !judge_image(&run, case, &mut mat, &img, lo_pow, hi, opkind, evk, &format!("power-loss/{:?}+prefix", ns2), json!({"point": point, "unsynced_writes_surviving": keep, "of": u}), acc) {
                        violations_here += 1;
                    }
                }
                mat.invalidate_all();
                if violations_here >= 3 {
                    return;
                }
            }
        }
        acc.sample(|| {
            json!({
                "case": case, "history": run.history_json(run.ops.len().min(14)),
                "frontier_process": fr_proc.iter().take(15).collect::<Vec<_>>(),
                "frontier_power": fr_pow.iter().take(15).collect::<Vec<_>>(),
                "effects_total": run.events.iter().filter(|e| e.mutates()).count(),
            })
        });
    }
}

#[allow(clippy::too_many_arguments)]
fn judge_image(
    run: &LiveRun,
    case: u64,
    mat: &mut Mat,
    img: &Image,
    lo: usize,
    hi: usize,
    opkind: &str,
    evkind: &str,
    model: &str,
    point: serde_json::Value,
    acc: &mut Acc,
) -> bool {
    mat.sync(img);
    let (r, mut sut, evs) = recover(&mat.dir, run.policy, run.key);
    mat.touched_by(&evs);
    // One recovery in twelve goes on: a queue is created on the recovered log (persisted by
    // contract under every policy), a record appended and persist(FlushAndFsync) called; the
    // log is then shut down and opened again.  What was persisted AFTER a crash recovery must
    // survive the next restart like anything else (a torn tail left by the first crash must
    // not swallow it).
    let mut lost_after_recovery: Option<serde_json::Value> = None;
    // ... one time in four when the image ends inside an entry of several frames (its last valid frame is
    // a First or Middle frame), one recovery in twelve otherwise
    let torn_tail = opkind.starts_with("append") && {
        let newest = img.files.iter().filter(|(n, d)| n.starts_with("wal-") && d.iter().any(|x| *x != 0)).map(|(_, d)| d).last();
        newest.map(|d| crate::layout::parse_frames(d).last().map(|f| f.crc_ok && (f.ftype == 2 || f.ftype == 3)).unwrap_or(false)).unwrap_or(false)
    };
    if torn_tail {
        acc.count("recoveries_of_an_image_ending_inside_a_multi_frame_entry");
    }
    if (torn_tail && acc.get("recoveries_of_an_image_ending_inside_a_multi_frame_entry") % 4 == 1) || acc.get("recoveries_continued_with_a_persisted_call_and_a_restart") * 12 <= acc.evaluations {
        if let (Recovered::Ok(_), Some(s)) = (&r, sut.as_mut()) {
            // (the first queue gets no record: an append entry would re-create it at replay)
            let q0 = "c03-created-after-recovery-left-empty".to_string();
            let q = "c03-created-after-recovery".to_string();
            let o0 = s.apply(2_999_999, &Op::Create { q: q0.clone() });
            let o1 = s.apply(3_000_000, &Op::Create { q: q.clone() });
            let o2 = s.apply(3_000_001, &Op::Append { q: q.clone(), pos: None, lens: vec![40], chained: false });
            let o3 = s.apply(3_000_002, &Op::Persist { fsync: true });
            let all_ok = matches!(o0, Outcome::Created { .. }) && matches!(o1, Outcome::Created { .. }) && matches!(o2, Outcome::Appended { last: Some(0), .. }) && matches!(o3, Outcome::Persisted);
            let reopened = if all_ok { s.reopen(3_000_003).is_ok() } else { false };
            let evs2 = crate::shim::take_events(&mat.dir);
            crate::shim::reset();
            mat.touched_by(&evs2);
            if all_ok && reopened {
                acc.count("recoveries_continued_with_a_persisted_call_and_a_restart");
                let ok = crate::ops::Snapshot::take(s.log()).ok().map(|sn| sn.queues.get(&q).map(|g| g.recs.len() == 1 && g.recs[0].pos == 0 && g.recs[0].len == 40).unwrap_or(false) && sn.queues.get(&q0).map(|g| g.recs.is_empty()).unwrap_or(false)).unwrap_or(false);
                if !ok {
                    lost_after_recovery = Some(json!({"continuation": ["create_queue(c03-created-after-recovery-left-empty)", "create_queue(c03-created-after-recovery)", "append_record(40 bytes) -> position 0", "persist(FlushAndFsync)", "clean restart"], "observed": "one of the two queues, or the record, is missing after the restart"}));
                }
            } else {
                // a refused call or a failed restart on a recovered log is C02's subject
                acc.count("continuations_after_recovery_not_completed_(C02_territory)");
                mat.invalidate_all();
                if !reopened {
                    sut = None;
                }
            }
        }
    }
    finish(sut, mat);
    acc.eval();
    if let Some(obs) = lost_after_recovery {
        acc.violation(
            format!("C03/{}/{}/persisted-after-recovery-lost-at-the-next-restart/{}/after:{}", model, run.policy.name(), opkind, evkind),
            case,
            json!({"history": run.history_json(hi.min(run.ops.len())), "image": img.describe(), "crash_point": point, "observation": obs}),
        );
        return false;
    }
    let sig = |what: &str| format!("C03/{}/{}/{}/{}/after:{}", model, run.policy.name(), what, opkind, evkind);
    let detail = |extra: serde_json::Value| {
        json!({
            "history": run.history_json(hi.min(run.ops.len())),
            "loss_model": model, "crash_point": point,
            "persist_frontier_state_index": lo, "in_flight_state_index": hi,
            "state_at_frontier": run.states[lo].to_json(),
            "image": img.describe(),
            "observation": extra,
        })
    };
    match &r {
        Recovered::Ok(s) => match classify(s, &run.states, lo, hi) {
            Some(Class::Exact(j)) => {
                if j < hi {
                    acc.count("recovered_older_than_last_call_but_at_or_after_frontier");
                } else {
                    acc.count("recovered_up_to_date");
                }
                true
            }
            Some(Class::Partial(_)) => {
                acc.count("recovered_partial_truncate_or_delete");
                true
            }
            None => {
                acc.violation(
                    sig(&format!("state-older-than-frontier-or-not-a-prefix/{}", super::common::diff_class(&run.states[lo], s))),
                    case,
                    detail(json!({"recovered": s.to_json(), "diff_frontier_vs_recovered": run.states[lo].diff(s), "diff_latest_vs_recovered": run.states[hi].diff(s)})),
                );
                false
            }
        },
        other => {
            acc.violation(sig(&recovered_sig(other)), case, detail(json!({"open_result": recovered_sig(other)})));
            false
        }
    }
}
