//! C04 -- queue positions never regress or get reused.
//! Online trace-specification checker fed only by call arguments and results
//! (DESIGN.md 4/C04).

use std::collections::{BTreeMap, HashSet};

use serde_json::json;

use super::c02::finish;
use super::common::Driver;
use super::crash::{quiet_panics, recover_opts, Mat, Recovered};
use crate::gen::Profile;
use crate::image::Image;
use crate::ops::{short, ErrKind, Op, Outcome, Policy};
use crate::runner::{Acc, Ctx, Monitor, Tier};
use crate::util::{hash_combine, hash_str, Rng};

pub struct C04;

#[derive(Default, Clone)]
struct Inc {
    /// highest position ever appended or truncated-to in this incarnation
    high: Option<u64>,
    issued: HashSet<u64>,
    /// retained record count as far as the monitor can tell from results (for the floor)
    empty_since: Option<(u64, u64)>, // (unlinks, restarts) when it became empty
    retained: u64,
}

impl Monitor for C04 {
    fn id(&self) -> &'static str {
        "C04"
    }
    fn level(&self) -> &'static str {
        "exploration"
    }
    fn num_cases(&self, tier: Tier) -> u64 {
        tier.pick(9_600, 120_000)
    }
    fn floors(&self, tier: Tier) -> Vec<(&'static str, u64)> {
        vec![
            ("appends_checked", tier.pick(50_000, 1_000_000)),
            ("appends_to_queue_idle_across_2_gc_unlinks_and_a_restart", tier.pick(100, 2_000)),
            ("probe_appends_after_restart", tier.pick(5_000, 100_000)),
            ("probe_appends_after_crash_recovery", tier.pick(5_000, 100_000)),
            ("last_position_reads_checked", tier.pick(100_000, 2_000_000)),
            ("crash_images_torn_inside_a_multi_frame_append", tier.pick(20_000, 250_000)),
            ("restarts_of_a_recovered_log", tier.pick(40_000, 500_000)),
            ("crash_images_with_the_next_file_created_but_not_sized", tier.pick(1_000, 12_000)),
        ]
    }
    fn rule(&self) -> String {
        "case = one generated history (idle/gc/delete/mixed profiles, 60..160 calls, restarts) under Always(Flush); the monitor keeps, per queue incarnation and from call arguments/results only, the highest position ever appended or truncated-to; evaluation = one successful append (returned positions strictly above the mark, automatic positions exactly mark+1) or one last_position() read; after every restart every queue gets a probe append; at sampled call boundaries the live directory (= process-crash image under a flush-per-call policy) is recovered in a side branch and every queue is probed there; for half of the appends of several frames a second image, torn between the first frame of the entry and the rest (the append is then unacknowledged and its positions free) or - when the append rolled over - between the creation of the next WAL file and its sizing, is recovered and probed in the same way; every recovered branch is then restarted cleanly once more and last_position() re-read (the probes were acknowledged); distinct_nontrivial = distinct (queue, mark, restarts, unlinks) tuples of appends made after at least one restart or recovery".into()
    }
    fn assumptions(&self) -> Vec<String> {
        vec!["crash leg: the directory content at a call boundary under Always(Flush) is the process-crash image (all completed calls flushed)".into()]
    }
    fn run_case(&self, ctx: &Ctx, case: u64, acc: &mut Acc) {
        quiet_panics();
        let parts = ctx.case_seed(case);
        let mut rng = Rng::from_parts(&parts);
        let profile = *rng.pick(&[Profile::Idle, Profile::Idle, Profile::Idle, Profile::Gc, Profile::Delete, Profile::Mixed]);
        let nq = rng.usize(2, 6);
        let nops = rng.usize(60, 160);
        let dir = ctx.scratch.sub("c04");
        let side = ctx.scratch.sub("c04-side");
        let key = parts[2] ^ parts[1].rotate_left(32);
        let mut d = match Driver::start(&dir, Policy::AlwaysFlush, key, &parts, profile, nq) {
            Ok(d) => d,
            Err(e) => {
                acc.inconclusive(format!("cannot open a fresh directory: {:?}", e));
                return;
            }
        };
        d.gen.cfg.restart_pm = 50;
        d.gen.cfg.bad_pm = 40;
        let mut inc: BTreeMap<String, Inc> = BTreeMap::new();
        let mut restarts = 0u64;
        let mut recoveries = 0u64;

        // process one (op, outcome) pair through the trace specification
        fn observe(inc: &mut BTreeMap<String, Inc>, op: &Op, out: &Outcome, unlinks: u64, restarts: u64, acc: &mut Acc, after_restart_or_recovery: bool, case: u64) -> Result<(), (String, serde_json::Value)> {
            match (op, out) {
                (Op::Create { q }, Outcome::Created { .. }) => {
                    inc.insert(q.clone(), Inc { empty_since: Some((unlinks, restarts)), ..Default::default() });
                }
                (Op::Delete { q }, Outcome::Deleted { .. }) => {
                    inc.remove(q);
                }
                (Op::Append { q, pos, lens, .. }, Outcome::Appended { last: Some(last), .. }) => {
                    let st = inc.get_mut(q).ok_or_else(|| ("append-succeeded-on-unknown-queue".to_string(), json!({"queue": short(q)})))?;
                    let n = lens.len() as u64;
                    acc.eval();
                    acc.count("appends_checked");
                    if n == 0 || *last + 1 < n {
                        return Err(("append-outcome-malformed".into(), json!({"queue": short(q), "last": last, "records": n})));
                    }
                    let first = *last + 1 - n;
                    let floor = st.high.map(|h| h + 1).unwrap_or(0);
                    if first < floor {
                        return Err((
                            if pos.is_none() { "auto-position-regressed-or-reused".into() } else { "explicit-position-accepted-at-or-below-high-water-mark".into() },
                            json!({"queue": short(q), "returned_first": first, "returned_last": last, "high_water_mark": st.high, "position_opt": pos}),
                        ));
                    }
                    match pos {
                        None if first != floor => {
                            return Err(("auto-position-skipped-ahead".into(), json!({"queue": short(q), "returned_first": first, "expected": floor, "high_water_mark": st.high})));
                        }
                        Some(p) if *p != first => {
                            return Err(("explicit-position-not-honoured".into(), json!({"queue": short(q), "returned_first": first, "position_opt": p})));
                        }
                        _ => {}
                    }
                    for p in first..=*last {
                        if !st.issued.insert(p) {
                            return Err(("position-issued-twice".into(), json!({"queue": short(q), "position": p})));
                        }
                    }
                    if let Some((u0, r0)) = st.empty_since {
                        if unlinks >= u0 + 2 && restarts >= r0 + 1 {
                            acc.count("appends_to_queue_idle_across_2_gc_unlinks_and_a_restart");
                        }
                    }
                    if after_restart_or_recovery {
                        acc.distinct(hash_combine(hash_combine(hash_str(q), floor), hash_combine(hash_combine(restarts, unlinks), case)));
                    }
                    st.high = Some(*last);
                    st.retained += n;
                    st.empty_since = None;
                }
                (Op::Truncate { q, pos }, Outcome::Truncated { evicted, .. }) => {
                    if let Some(st) = inc.get_mut(q) {
                        st.retained = st.retained.saturating_sub(*evicted as u64);
                        // a truncation at or beyond the last position empties the queue and
                        // moves it forward
                        if st.high.map(|h| *pos >= h).unwrap_or(true) {
                            if st.retained != 0 {
                                // results say records remain although everything <= pos is gone:
                                // C05's business; keep the monitor's own state consistent
                                st.retained = 0;
                            }
                            // ..=u64::MAX parks the queue at the last representable next position
                            // (the library saturates): its last position is then u64::MAX - 1
                            let p_eff = (*pos).min(u64::MAX - 1);
                            st.high = Some(st.high.map(|h| h.max(p_eff)).unwrap_or(p_eff));
                        }
                        if st.retained == 0 && st.empty_since.is_none() {
                            st.empty_since = Some((unlinks, restarts));
                        }
                    }
                }
                _ => {}
            }
            Ok(())
        }

        let check_last_positions = |d: &Driver, inc: &BTreeMap<String, Inc>, acc: &mut Acc| -> Result<(), (String, serde_json::Value)> {
            for (q, st) in inc {
                match d.sut.log().last_position(q) {
                    Ok(lp) => {
                        acc.eval();
                        acc.count("last_position_reads_checked");
                        if lp != st.high {
                            return Err(("last_position-disagrees-with-high-water-mark".into(), json!({"queue": short(q), "last_position": lp, "high_water_mark": st.high})));
                        }
                    }
                    Err(_) => return Err(("queue-known-to-monitor-is-missing".into(), json!({"queue": short(q)}))),
                }
            }
            Ok(())
        };

        let mut i = 0;
        while i < nops {
            i += 1;
            let st = d.step();
            if st.outcome.is_io_err() {
                acc.inconclusive(format!("I/O error from a live call: {:?}", st.outcome));
                return;
            }
            let is_restart = matches!(st.op, Op::Restart);
            if let Outcome::Err(e) = &st.outcome {
                if is_restart {
                    acc.inconclusive(format!("restart failed (C01 territory): {:?}", e));
                    return;
                }
            }
            if is_restart {
                restarts += 1;
            }
            let inc_before = if matches!(st.op, Op::Append { .. }) { Some(inc.clone()) } else { None };
            if let Err((what, detail)) = observe(&mut inc, &st.op, &st.outcome, d.io.unlinks, restarts, acc, restarts + recoveries > 0, case) {
                acc.violation(format!("C04/{}", what), case, json!({"history": d.history_json(400), "observation": detail}));
                return;
            }
            if let Err((what, detail)) = check_last_positions(&d, &inc, acc) {
                acc.violation(format!("C04/{}{}", what, if is_restart { "/after-restart" } else { "" }), case, json!({"history": d.history_json(400), "observation": detail}));
                return;
            }
            if is_restart {
                // probe every queue
                let names: Vec<String> = inc.keys().cloned().collect();
                for q in names {
                    // a queue parked at the end of the position space by truncate(..=u64::MAX)
                    // is not probed: appending there is the overflow corner of C10's findings
                    if inc.get(&q).and_then(|s| s.high).map(|h| h >= u64::MAX - (1 << 32)).unwrap_or(false) {
                        continue;
                    }
                    let probe = Op::Append { q: q.clone(), pos: None, lens: vec![rng.usize(0, 30)], chained: false };
                    d.gen.note_external(&probe);
                    let st = d.apply(probe);
                    acc.count("probe_appends_after_restart");
                    if let Err((what, detail)) = observe(&mut inc, &st.op, &st.outcome, d.io.unlinks, restarts, acc, true, case) {
                        acc.violation(format!("C04/{}/after-restart", what), case, json!({"history": d.history_json(400), "observation": detail}));
                        return;
                    }
                    if !matches!(st.outcome, Outcome::Appended { last: Some(_), .. }) {
                        acc.violation("C04/probe-append-rejected/after-restart", case, json!({"history": d.history_json(400), "outcome": st.outcome.to_json()}));
                        return;
                    }
                }
            }
            // crash branches: at the call boundary and - for an append of several frames - between
            // the write of its first frame and the rest (the append is then not acknowledged)
            let torn = match (&inc_before, &st.outcome) {
                (Some(before), Outcome::Appended { last: Some(_), .. }) if rng.chance(1, 2) => torn_image(&dir, &st.events, rng.chance(1, 2)).map(|img| (img, before.clone())),
                _ => None,
            };
            let boundary = if !is_restart && rng.chance(1, 8) { Some((Image::from_dir(&dir), inc.clone())) } else { None };
            for (which, (img, expect)) in [("", boundary), ("-torn-inside-an-append", torn)].into_iter().filter_map(|(w, x)| x.map(|x| (w, x))) {
                let mut mat = Mat::new(&side);
                mat.sync(&img);
                let (r, sut, evs) = recover_opts(&side, Policy::AlwaysFlush, key, false);
                mat.touched_by(&evs);
                if !which.is_empty() {
                    acc.count("crash_images_torn_inside_a_multi_frame_append");
                    if img.files.values().any(|f| f.is_empty()) {
                        acc.count("crash_images_with_the_next_file_created_but_not_sized");
                    }
                }
                // restore the shim's root for the main line afterwards
                match (&r, sut) {
                    (Recovered::Ok(_), Some(mut s)) => {
                        recoveries += 1;
                        let mut branch = expect.clone();
                        for (q, stq) in expect.iter() {
                            match s.log().last_position(q) {
                                Ok(lp) if lp == stq.high => {}
                                other => {
                                    acc.violation(
                                        format!("C04/last_position-disagrees-with-high-water-mark/after-crash-recovery{}", which),
                                        case,
                                        json!({"history": d.history_json(400), "queue": short(q), "recovered_last_position": format!("{:?}", other), "high_water_mark": stq.high}),
                                    );
                                    finish(Some(s), &mut mat);
                                    crate::shim::set_root(&dir);
                                    return;
                                }
                            }
                            if stq.high.map(|h| h >= u64::MAX - (1 << 32)).unwrap_or(false) {
                                continue;
                            }
                            let probe = Op::Append { q: q.clone(), pos: None, lens: vec![rng.usize(0, 30)], chained: false };
                            let out = s.apply(900_000 + i, &probe);
                            acc.count("probe_appends_after_crash_recovery");
                            if let Err((what, detail)) = observe(&mut branch, &probe, &out, d.io.unlinks, restarts, acc, true, case) {
                                acc.violation(format!("C04/{}/after-crash-recovery{}", what, which), case, json!({"history": d.history_json(400), "observation": detail}));
                                finish(Some(s), &mut mat);
                                crate::shim::set_root(&dir);
                                return;
                            }
                            if !matches!(out, Outcome::Appended { last: Some(_), .. }) {
                                acc.violation(format!("C04/probe-append-rejected/after-crash-recovery{}", which), case, json!({"history": d.history_json(400), "outcome": out.to_json()}));
                                finish(Some(s), &mut mat);
                                crate::shim::set_root(&dir);
                                return;
                            }
                        }
                        // the recovered log, with its probes, restarts once more: the probes were
                        // acknowledged, so their positions stay used
                        match s.reopen(950_000 + i as u64) {
                            Ok(()) => {
                                acc.count("restarts_of_a_recovered_log");
                                for (q, stq) in branch.iter() {
                                    acc.eval();
                                    match s.log().last_position(q) {
                                        Ok(lp) if lp == stq.high => {}
                                        other => {
                                            acc.violation(
                                                format!("C04/last_position-disagrees-with-high-water-mark/after-restart-of-recovered-log{}", which),
                                                case,
                                                json!({"history": d.history_json(400), "queue": short(q), "last_position": format!("{:?}", other), "high_water_mark": stq.high,
                                                       "note": "crash image recovered, one record appended to every queue, then a clean restart"}),
                                            );
                                            finish(Some(s), &mut mat);
                                            crate::shim::set_root(&dir);
                                            return;
                                        }
                                    }
                                }
                            }
                            Err(e @ ErrKind::Io(_)) => acc.inconclusive(format!("restart of the recovered log hit an I/O error: {:?}", e)),
                            Err(e) => {
                                acc.violation(
                                    format!("C04/restart-of-recovered-log-failed{}", which),
                                    case,
                                    json!({"history": d.history_json(400), "error": format!("{:?}", e), "note": "crash image recovered, one record appended to every queue, then a clean restart"}),
                                );
                                finish(Some(s), &mut mat);
                                crate::shim::set_root(&dir);
                                return;
                            }
                        }
                        finish(Some(s), &mut mat);
                    }
                    (other, s) => {
                        finish(s, &mut mat);
                        acc.inconclusive(format!("crash-branch recovery failed (C02 territory): {}", super::c02::recovered_sig(other)));
                    }
                }
                crate::shim::reset();
                crate::shim::set_root(&dir);
            }
        }
        acc.add("restarts", restarts);
        acc.add("crash_recoveries", recoveries);
        acc.add("wal_files_unlinked", d.io.unlinks);
        acc.sample(|| json!({"case": case, "history_excerpt": d.history_json(12), "high_water_marks": inc.iter().map(|(q, s)| json!({"queue": short(q), "high": s.high})).collect::<Vec<_>>()}));
    }
}

/// The directory as a crash inside the traced append would leave it.  First shape: between the
/// write of the first frame of its entry and the rest: the bytes of the call behind that frame are
/// zero again (WAL files are created zero-filled and never rewritten).  None when the call did
/// not write an entry of several frames.
fn torn_image(dir: &std::path::Path, events: &[crate::shim::Ev], prefer_unsized: bool) -> Option<Image> {
    use crate::layout::parse_frames;
    use crate::shim::Ev;
    // second shape: the call rolled over and the crash falls between the creation of the next
    // WAL file and its sizing - the file exists, empty, and nothing written after its creation
    // has happened
    if prefer_unsized {
        let created = events.iter().position(|e| matches!(e, Ev::Open { name, flags, err: 0, .. } if name.starts_with("wal-") && flags & (libc::O_CREAT as u32) != 0));
        if let Some(ci) = created {
            let Ev::Open { name: newfile, .. } = &events[ci] else { return None };
            let mut img = Image::from_dir(dir);
            for e in &events[ci + 1..] {
                if let Ev::Write { name, off, data, err: 0, .. } = e {
                    if let Some(f) = img.files.get_mut(name) {
                        let (a, b) = (*off as usize, *off as usize + data.len());
                        if b <= f.len() {
                            f[a..b].iter_mut().for_each(|x| *x = 0);
                        }
                    }
                }
            }
            img.files.insert(newfile.clone(), Vec::new());
            return Some(img);
        }
    }
    let writes: Vec<(&String, usize, usize)> = events
        .iter()
        .filter_map(|e| match e {
            Ev::Write { name, off, data, err: 0, .. } if name.starts_with("wal-") && !data.is_empty() => Some((name, *off as usize, data.len())),
            _ => None,
        })
        .collect();
    let (file, start, _) = *writes.first()?;
    let mut img = Image::from_dir(dir);
    let cut = {
        let data = img.files.get(file)?;
        let f = parse_frames(data).into_iter().find(|f| f.off >= start && f.crc_ok)?;
        if f.ftype != 2 {
            return None;
        }
        f.end()
    };
    for (name, off, len) in writes {
        let data = img.files.get_mut(name)?;
        let (a, b) = if name == file { (off.max(cut), off + len) } else { (off, off + len) };
        if a < b && b <= data.len() {
            for x in &mut data[a..b] {
                *x = 0;
            }
        }
    }
    Some(img)
}
