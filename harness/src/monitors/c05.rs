//! C05 -- every call conforms to the sequential queue-map specification.
//! Lock-step conformance against ops::Model after every call (DESIGN.md 4/C05).

use std::borrow::Cow;
use std::ops::Bound;

use serde_json::json;

use super::common::Driver;
use crate::gen::Profile;
use crate::ops::{short, Model, Op, Rec, Snapshot, SnapStats, ALL_POLICIES};
use crate::runner::{Acc, Ctx, Monitor, Tier, DEV_BASE};
use crate::util::{hash_bytes, Rng};

pub struct C05;

fn bname(b: &Bound<u64>) -> &'static str {
    match b {
        Bound::Included(_) => "incl",
        Bound::Excluded(_) => "excl",
        Bound::Unbounded => "unb",
    }
}

impl Monitor for C05 {
    fn id(&self) -> &'static str {
        "C05"
    }
    fn level(&self) -> &'static str {
        "exploration"
    }
    fn num_cases(&self, tier: Tier) -> u64 {
        tier.pick(3_200, 100_000)
    }
    fn num_dev_cases(&self, tier: Tier) -> u64 {
        tier.pick(160, 4_000)
    }
    fn floors(&self, tier: Tier) -> Vec<(&'static str, u64)> {
        vec![
            ("calls_checked", tier.pick(100_000, 3_000_000)),
            ("range_queries_checked", tier.pick(300_000, 8_000_000)),
            ("ring_wrap_reads_cow_owned", tier.pick(200, 5_000)),
            ("outcome_Err(Past)", tier.pick(500, 10_000)),
            ("outcome_noop_retry_of_last", tier.pick(500, 10_000)),
            ("outcome_noop_empty_batch", tier.pick(300, 5_000)),
            ("truncate_into_future", tier.pick(500, 10_000)),
            ("append_at_future_gap", tier.pick(500, 10_000)),
        ]
    }
    fn library_panic_is_violation(&self) -> bool {
        true
    }
    fn rule(&self) -> String {
        "case = one generated history (60..140 calls, 1..5 queues, all argument shapes incl. rejected/no-op ones); evaluation = one call whose outcome AND whole observable state (list/exists/range for a family of bounds/last_position/last_record/summary) were compared with the sequential model; distinct_nontrivial = distinct post-call state digests of calls made while at least one queue held >= 2 records".into()
    }
    fn assumptions(&self) -> Vec<String> {
        vec![
            "trusted base: the sequential model ops::Model (about 90 lines, written from the statement)".into(),
            "payload equality by 64-bit content hash + length".into(),
        ]
    }
    fn run_case(&self, ctx: &Ctx, case: u64, acc: &mut Acc) {
        let parts = ctx.case_seed(case);
        let mut rng = Rng::from_parts(&parts);
        let profile = *rng.pick(&[
            Profile::Mixed, Profile::Mixed, Profile::Mixed, Profile::Gc, Profile::Gc, Profile::Dense,
            Profile::Dense, Profile::Idle, Profile::Delete, Profile::BigName, Profile::Huge, Profile::Align,
        ]);
        let policy = *rng.pick(&ALL_POLICIES);
        let nq = rng.usize(1, 5);
        let nops = rng.usize(60, 140);
        let dir = ctx.scratch.sub("c05");
        let key = parts[2] ^ parts[1].rotate_left(32);
        let mut d = match Driver::start(&dir, policy, key, &parts, profile, nq) {
            Ok(d) => d,
            Err(e) => {
                acc.inconclusive(format!("cannot open a fresh directory: {:?}", e));
                return;
            }
        };
        // a few restarts (the model ignores them: the state must simply carry over), more of
        // them under the profiles whose queues sit idle across GC passes
        d.gen.cfg.restart_pm = if matches!(profile, Profile::Idle | Profile::Gc | Profile::Delete) { 25 } else { 5 };
        d.gen.cfg.bad_pm = 120;
        if case >= DEV_BASE {
            acc.count("histories_dev_profile_build");
        }
        let mut model = Model::new(key);
        for _ in 0..nops {
            let st = d.step();
            let want = model.apply(st.k, &st.op);
            acc.eval();
            acc.count("calls_checked");
            acc.count(&format!("calls_{}", st.op.kind()));
            if st.outcome.is_panic() {
                acc.violation(
                    format!("C05/call-panicked/{}/{:?}", st.op.kind(), st.outcome).chars().take(160).collect::<String>(),
                    case,
                    json!({"history": d.history_json(300), "call": st.op.to_json(), "observed": st.outcome.to_json(), "specified": want.to_json()}),
                );
                return;
            }
            if st.outcome.is_io_err() {
                acc.inconclusive(format!("I/O error from a live call: {:?}", st.outcome));
                return;
            }
            // classify interesting shapes for the floors
            match (&st.op, &want) {
                (_, crate::ops::Outcome::Err(e)) => acc.count(&format!("outcome_Err({:?})", e)),
                (Op::Append { pos: Some(_), lens, .. }, crate::ops::Outcome::Appended { last: None, .. }) if !lens.is_empty() => {
                    acc.count("outcome_noop_retry_of_last")
                }
                (Op::Append { lens, .. }, crate::ops::Outcome::Appended { last: None, .. }) if lens.is_empty() => {
                    acc.count("outcome_noop_empty_batch")
                }
                (Op::Append { pos: Some(p), lens, .. }, crate::ops::Outcome::Appended { last: Some(l), .. }) => {
                    if *l + 1 - lens.len() as u64 == *p && model.queues.get(st.op.queue().unwrap()).map(|q| q.recs.len() > lens.len() && q.recs[q.recs.len() - lens.len() - 1].0 + 1 < *p).unwrap_or(false) {
                        acc.count("append_at_future_gap");
                    }
                }
                (Op::Truncate { q, pos }, crate::ops::Outcome::Truncated { .. }) => {
                    if model.queues.get(q).map(|m| m.recs.is_empty() && m.next == pos.saturating_add(1)).unwrap_or(false) {
                        acc.count("truncate_into_future");
                    }
                }
                _ => {}
            }
            if st.outcome.logical() != want {
                acc.violation(
                    format!("C05/outcome/{}/{:?}-vs-spec-{:?}", st.op.kind(), st.outcome.logical(), want).chars().take(160).collect::<String>(),
                    case,
                    json!({"history": d.history_json(300), "call": st.op.to_json(), "observed": st.outcome.to_json(), "specified": want.to_json()}),
                );
                return;
            }
            // whole observable state
            let mut stats = SnapStats::default();
            let snap = match Snapshot::take_stats(d.sut.log(), &mut stats) {
                Ok(s) => s,
                Err(e) => {
                    acc.violation("C05/read-api-inconsistent", case, json!({"history": d.history_json(300), "error": e}));
                    return;
                }
            };
            acc.add("ring_wrap_reads_cow_owned", stats.owned_payloads);
            acc.add("records_read_back", stats.records);
            let msnap = model.snapshot();
            if let Some(diff) = msnap.diff(&snap) {
                acc.violation(
                    format!("C05/state/{}/{}", st.op.kind(), super::common::diff_class(&msnap, &snap)),
                    case,
                    json!({"history": d.history_json(300), "after_call": st.op.to_json(), "diff_spec_vs_observed": diff}),
                );
                return;
            }
            if snap.queues.values().any(|q| q.recs.len() >= 2) {
                acc.distinct(snap.digest());
            }
            let log = d.sut.log();
            // existence of present and absent names
            for n in &d.gen.names {
                if log.queue_exists(n) != model.queues.contains_key(n) {
                    acc.violation("C05/queue_exists", case, json!({"history": d.history_json(300), "queue": short(n)}));
                    return;
                }
            }
            let absent = format!("absent-{}", rng.below(1000));
            let absent_ok = !log.queue_exists(&absent)
                && log.range(&absent, ..).is_err()
                && log.last_position(&absent).is_err()
                && log.last_record(&absent).is_err();
            if !absent_ok {
                acc.violation("C05/missing-queue-read-accessors", case, json!({"history": d.history_json(300)}));
                return;
            }
            // summary
            let summary = log.summary();
            let names_ok = summary.queues.keys().cloned().collect::<Vec<_>>() == model.queues.keys().cloned().collect::<Vec<_>>();
            let ends_ok = names_ok && summary.queues.iter().all(|(n, s)| s.end == model.queues[n].next.checked_sub(1));
            if !ends_ok {
                acc.violation("C05/summary", case, json!({"history": d.history_json(300), "summary": serde_json::to_value(&summary.queues).unwrap_or_default()}));
                return;
            }
            // last_record + a family of range bounds, on every queue
            for (n, mq) in &model.queues {
                let lr = log.last_record(n).ok().flatten().map(|r| {
                    Rec { pos: r.position, len: r.payload.len() as u32, hash: hash_bytes(&r.payload) }
                });
                let want_lr = mq.recs.back().map(|(p, pid, h)| Rec { pos: *p, len: pid.len, hash: *h });
                if lr != want_lr {
                    acc.violation("C05/last_record", case, json!({"history": d.history_json(300), "queue": short(n), "observed": format!("{:?}", lr), "specified": format!("{:?}", want_lr)}));
                    return;
                }
                // candidate positions
                let mut cands: Vec<u64> = Vec::new();
                if let (Some(f), Some(l)) = (mq.recs.front(), mq.recs.back()) {
                    cands.extend([f.0.saturating_sub(1), f.0, f.0 + 1, l.0.saturating_sub(1), l.0, l.0 + 1]);
                    let mid = mq.recs[mq.recs.len() / 2].0;
                    cands.extend([mid, mid + 1]);
                    // a gap, if any
                    for w in 0..mq.recs.len().saturating_sub(1) {
                        if mq.recs[w].0 + 1 < mq.recs[w + 1].0 {
                            cands.extend([mq.recs[w].0 + 1, mq.recs[w + 1].0 - 1]);
                            break;
                        }
                    }
                    cands.push(mq.recs[rng.below(mq.recs.len() as u64) as usize].0);
                } else {
                    cands.extend([0, mq.next.saturating_sub(1), mq.next, mq.next.saturating_add(1)]);
                }
                cands.push(0);
                cands.push(u64::MAX - 1);
                cands.sort_unstable();
                cands.dedup();
                let nq = 6;
                for _ in 0..nq {
                    let a = *rng.pick(&cands);
                    let b = *rng.pick(&cands);
                    let lo = match rng.below(3) {
                        0 => Bound::Included(a),
                        1 => Bound::Excluded(a),
                        _ => Bound::Unbounded,
                    };
                    let hi = match rng.below(3) {
                        0 => Bound::Included(b),
                        1 => Bound::Excluded(b),
                        _ => Bound::Unbounded,
                    };
                    let got: Vec<Rec> = match log.range(n, (lo, hi)) {
                        Ok(it) => it
                            .map(|r| {
                                if matches!(r.payload, Cow::Owned(_)) && Some(r.position) != mq.recs.back().map(|x| x.0) {
                                    acc.count("ring_wrap_reads_cow_owned");
                                }
                                Rec { pos: r.position, len: r.payload.len() as u32, hash: hash_bytes(&r.payload) }
                            })
                            .collect(),
                        Err(_) => {
                            acc.violation("C05/range-missing-queue-on-existing", case, json!({"history": d.history_json(300), "queue": short(n)}));
                            return;
                        }
                    };
                    let want = model.range(n, lo, hi).unwrap();
                    acc.count("range_queries_checked");
                    acc.count(&format!("range_bounds_{}_{}", bname(&lo), bname(&hi)));
                    if got != want {
                        acc.violation(
                            format!("C05/range/{}-{}", bname(&lo), bname(&hi)),
                            case,
                            json!({
                                "history": d.history_json(300), "queue": short(n), "bounds": format!("{:?}", (lo, hi)),
                                "observed_positions": crate::ops::span(&got.iter().map(|r| r.pos).collect::<Vec<_>>()),
                                "specified_positions": crate::ops::span(&want.iter().map(|r| r.pos).collect::<Vec<_>>()),
                            }),
                        );
                        return;
                    }
                }
            }
        }
        acc.sample(|| json!({"case": case, "history_excerpt": d.history_json(10), "final_state": model.snapshot().to_json()}));
    }
}
