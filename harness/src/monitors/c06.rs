//! C06 -- WAL files are reclaimed as soon as nothing retained lives in them.
//! The bound is computed from the syscall trace ("file current when the append began"),
//! not from the implementation's reference counts.  DESIGN.md 4/C06.

use std::collections::HashMap;

use serde_json::json;

use super::common::{list_wal_files, wal_number, Driver};
use crate::gen::Profile;
use crate::ops::{short, Op, Outcome, Snapshot, ALL_POLICIES};
use crate::runner::{Acc, Ctx, Monitor, Tier, REAL_BASE};
use crate::shim::Ev;
use crate::util::{hash_combine, Rng};

pub struct C06;

impl Monitor for C06 {
    fn id(&self) -> &'static str {
        "C06"
    }
    fn level(&self) -> &'static str {
        "exploration"
    }
    fn num_cases(&self, tier: Tier) -> u64 {
        tier.pick(12_800, 400_000)
    }
    fn num_realsize_cases(&self, tier: Tier) -> u64 {
        tier.pick(0, 12)
    }
    fn floors(&self, tier: Tier) -> Vec<(&'static str, u64)> {
        vec![
            ("realsize_checks_where_files_were_unlinked", tier.pick(0, 10)),
            ("checks_after_truncate", tier.pick(20_000, 400_000)),
            ("checks_after_delete_queue", tier.pick(1_000, 20_000)),
            ("checks_after_open", tier.pick(3_000, 60_000)),
            ("checks_after_open_of_a_call_boundary_crash_image", tier.pick(10_000, 200_000)),
            ("checks_after_open_of_a_crash_image_with_buffered_tail_lost", tier.pick(1_000, 20_000)),
            ("checks_after_open_of_a_crash_image_right_after_roll_over", tier.pick(1_000, 20_000)),
            ("checks_on_a_log_continued_after_a_crash_inside_roll_over", tier.pick(5_000, 100_000)),
            ("checks_where_files_were_unlinked", tier.pick(200, 4_000)),
            ("checks_where_nothing_could_be_unlinked", tier.pick(50, 1_000)),
            ("checks_with_3_or_more_files_present", tier.pick(1_000, 20_000)),
            ("checks_where_oldest_file_is_pinned_by_a_retained_record", tier.pick(5_000, 100_000)),
        ]
    }
    fn rule(&self) -> String {
        "case = one generated multi-queue history (gc/idle/delete/mixed/huge profiles, any persist policy, restarts); evaluation = one check after a truncate / delete_queue / open: (1) the WAL files present are a contiguous run of numbers ending at the file most recently written, (2) none is older than min(file that was current when the oldest retained record's append began, file that was current when this call began), (3) the file of every retained record is present, (4) disk_used_bytes == sum of file sizes; 'current file' is read off the syscall trace; one call boundary in twelve, and every append that rolled over (with the newest file put back to zeros: the crash point right after it was created and sized), (plus, for one roll-over in five, the crash point one step earlier - new file created but still 0 bytes long - on which an 11-call continuation rolls over into the pre-existing file and is checked for (1) and, whenever all files are fully sized, (4)) is also copied as a process-crash image (under lazy policies without the still-buffered tail) and opened in a side directory, where the same checks apply to the recovered log; distinct_nontrivial = distinct (present file set, oldest pinned file, number of retained records) among checks with >= 2 files present or an unlink in the call".into()
    }
    fn assumptions(&self) -> Vec<String> {
        vec!["the file current at a point in time = target of the most recent traced create/write on a WAL file; under lazy policies the harness issues persist(Flush) right after every call so that the trace is exact at call boundaries (this does not influence the library's GC decisions)".into()]
    }
    fn run_case(&self, ctx: &Ctx, case: u64, acc: &mut Acc) {
        let parts = ctx.case_seed(case);
        let mut rng = Rng::from_parts(&parts);
        let profile = *rng.pick(&[Profile::Gc, Profile::Gc, Profile::Gc, Profile::Idle, Profile::Idle, Profile::Delete, Profile::Mixed, Profile::Huge, Profile::BigName, Profile::BigName]);
        let policy = if rng.chance(3, 4) { if rng.chance(1, 2) { crate::ops::Policy::AlwaysFlush } else { crate::ops::Policy::AlwaysFsync } } else { *rng.pick(&ALL_POLICIES) };
        let real = case >= REAL_BASE;
        let profile = if real { Profile::Gc } else { profile };
        let nq = if real { rng.usize(1, 3) } else { rng.usize(1, 5) };
        let nops = if real { rng.usize(30, 50) } else { rng.usize(40, 140) };
        let dir = ctx.scratch.sub("c06");
        let key = parts[2] ^ parts[1].rotate_left(32);
        let mut d = match Driver::start(&dir, policy, key, &parts, profile, nq) {
            Ok(d) => d,
            Err(e) => {
                acc.inconclusive(format!("cannot open a fresh directory: {:?}", e));
                return;
            }
        };
        d.gen.cfg.restart_pm = 40;
        d.gen.cfg.bad_pm = 30;
        let precise = true;
        acc.count(&format!("histories_policy_{}", policy.name()));
        // file most recently created or written, as seen in the trace
        let mut cur: u64 = list_wal_files(&dir).last().map(|f| f.0).unwrap_or(0);
        // born[(queue, position)] = file current when the append call began
        let mut born: HashMap<(String, u64), u64> = HashMap::new();
        // same, keyed by content as well and never pruned: a crash image may bring back records
        // that were evicted live (lazy policies)
        let mut born_all: HashMap<(String, u64, u64), u64> = HashMap::new();
        let side = ctx.scratch.sub("c06-side");
        // scripted interludes: a queue's LAST record in a file is an empty payload, the log
        // rolls over through another queue, then both are truncated so that only that empty
        // record could still pin the old file
        let mut scripted: std::collections::VecDeque<Op> = std::collections::VecDeque::new();
        let mut model = crate::ops::Model::new(key);
        for _ in 0..nops {
            let cur_begin = cur;
            let before_unlinks = d.io.unlinks;
            if scripted.is_empty() && d.gen.st.len() >= 2 && rng.chance(1, 30) {
                let names: Vec<String> = d.gen.st.keys().cloned().collect();
                let q = names[0].clone();
                let f = names[1].clone();
                let qn = d.gen.st[&q].next;
                let fnx = d.gen.st[&f].next;
                let big = (d.file_size as usize) * 3 / 5;
                scripted.push_back(Op::Append { q: q.clone(), pos: None, lens: vec![rng.usize(1, 2000), 0], chained: false });
                scripted.push_back(Op::Append { q: f.clone(), pos: None, lens: vec![big], chained: false });
                scripted.push_back(Op::Append { q: f.clone(), pos: None, lens: vec![big], chained: false });
                scripted.push_back(Op::Append { q: q.clone(), pos: None, lens: vec![rng.usize(1, 2000)], chained: false });
                scripted.push_back(Op::Truncate { q: f.clone(), pos: fnx + 1 });
                scripted.push_back(Op::Truncate { q: q.clone(), pos: qn + 1 });
                acc.count("scripted_interludes_empty_record_last_in_its_file");
            }
            let st = if let Some(op) = scripted.pop_front() {
                d.gen.note_external(&op);
                d.apply(op)
            } else {
                d.step()
            };
            model.apply(st.k, &st.op);
            if st.outcome.is_io_err() {
                acc.inconclusive(format!("I/O error from a live call: {:?}", st.outcome));
                return;
            }
            // under lazy policies drain the write buffer right after the call, so that the
            // trace (and therefore "current file") is exact at every call boundary; this
            // changes nothing about the library's GC decisions
            let mut events = st.events.clone();
            // a process crash right now would leave this (taken before the drain below, so that
            // under lazy policies the still buffered tail is really missing)
            let mut crash_images: Vec<(&'static str, crate::image::Image)> = Vec::new();
            if !matches!(st.op, Op::Restart) && rng.chance(1, 12) {
                crash_images.push(("call-boundary", crate::image::Image::from_dir(&dir)));
            }
            if !policy.always() {
                let t = d.apply(Op::Persist { fsync: false });
                events.extend(t.events);
            }
            for e in &events {
                match e {
                    Ev::Write { name, data, .. } if !data.is_empty() => {
                        if let Some(n) = wal_number(name) {
                            cur = n;
                        }
                    }
                    Ev::Open { name, flags, err: 0, .. } if flags & (libc::O_CREAT as u32) != 0 => {
                        if let Some(n) = wal_number(name) {
                            cur = n;
                        }
                    }
                    _ => {}
                }
            }
            match (&st.op, &st.outcome) {
                (Op::Append { q, lens, .. }, Outcome::Appended { last: Some(last), .. }) => {
                    let first = last + 1 - lens.len() as u64;
                    for (i, p) in (first..=*last).enumerate() {
                        born.insert((q.clone(), p), cur_begin);
                        let pid = crate::ops::Pid { op: st.k as u32, idx: i as u32, len: lens[i] as u32 };
                        born_all.insert((q.clone(), p, crate::ops::payload_hash(key, pid)), cur_begin);
                    }
                }
                (Op::Delete { q }, Outcome::Deleted { .. }) => {
                    born.retain(|k, _| &k.0 != q);
                }
                _ => {}
            }
            // "(and after open)": open the process-crash image of this call boundary in a side
            // directory (what a crash right now would leave: under lazy policies the still
            // buffered tail is missing) and apply the same bound to the recovered log
            if matches!(st.op, Op::Append { .. }) && cur > cur_begin {
                // the append rolled over: a crash right after the newest file was created and
                // sized leaves every older file complete (roll-over flushes them) and the
                // newest one all zeros
                let mut img = crate::image::Image::from_dir(&dir);
                let newest = img.files.keys().filter(|n| wal_number(n).is_some()).max().cloned();
                if let Some(n) = newest {
                    for b in img.files.get_mut(&n).unwrap().iter_mut() {
                        *b = 0;
                    }
                    let mut unsized_img = img.clone();
                    unsized_img.files.get_mut(&n).unwrap().clear();
                    crash_images.push(("right-after-roll-over-sized-the-new-file", img));
                    // one step earlier: the new file exists but is still 0 bytes long
                    if rng.chance(1, 5) {
                        crash_images.push(("new-file-created-but-not-yet-sized", unsized_img));
                    }
                }
            }
            for (img_kind, img) in crash_images {
                let before: Vec<u64> = img.files.keys().filter_map(|n| wal_number(n)).collect();
                img.materialize(&side);
                if img_kind == "new-file-created-but-not-yet-sized" {
                    // The 0-byte file cannot be read, so the writer legitimately stays in the
                    // previous file and the statement's bound does not apply at this open (see
                    // DESIGN C06).  What must hold is that the log keeps its books straight when
                    // it later rolls over into that pre-existing file: continue on the recovered
                    // log and compare disk_used_bytes with the directory whenever every file
                    // present is fully sized.
                    if let Ok(mut s2) = crate::ops::Sut::open(&side, crate::ops::Policy::AlwaysFlush, key, false) {
                        let q = "c06-continuation\u{1}".to_string();
                        let chunk = (d.file_size as usize) * 2 / 5;
                        let mut cont: Vec<Op> = vec![Op::Create { q: q.clone() }];
                        for _ in 0..4 {
                            cont.push(Op::Append { q: q.clone(), pos: None, lens: vec![chunk], chained: false });
                        }
                        cont.push(Op::Truncate { q: q.clone(), pos: 2 });
                        for _ in 0..3 {
                            cont.push(Op::Append { q: q.clone(), pos: None, lens: vec![chunk], chained: false });
                        }
                        cont.push(Op::Truncate { q: q.clone(), pos: 6 });
                        cont.push(Op::Delete { q: q.clone() });
                        for (j, op) in cont.iter().enumerate() {
                            let out = s2.apply(2_000_000 + j, op);
                            if matches!(out, Outcome::Err(_)) {
                                break;
                            }
                            let present2 = list_wal_files(&side);
                            let nums2: Vec<u64> = present2.iter().map(|f| f.0).collect();
                            let disk2 = s2.log().resource_usage().disk_used_bytes as u64;
                            // only the NEWEST file may still be short (created by the crashed
                            // roll-over and not rolled into yet): the comparison is skipped in
                            // that state alone; a short file that is NOT the newest stays short
                            // for ever and is compared as it is
                            let newest_n = nums2.iter().max().copied();
                            let older_short = present2.iter().any(|f| Some(f.0) != newest_n && f.1 != d.file_size);
                            let all_sized = present2.iter().all(|f| f.1 == d.file_size) || older_short;
                            acc.eval();
                            acc.count("checks_on_a_log_continued_after_a_crash_inside_roll_over");
                            let detail2 = |what: &str| json!({"history": d.history_json(400), "crash_image_taken_inside_call": st.op.to_json(), "crash_image_kind": img_kind, "continuation": crate::ops::ops_json(&cont[..=j]), "violated": what, "wal_files_present": present2.iter().map(|f| json!({"number": f.0, "size": f.1})).collect::<Vec<_>>(), "disk_used_bytes": disk2});
                            if nums2.is_empty() || !nums2.windows(2).all(|w| w[1] == w[0] + 1) {
                                acc.violation("C06/files-not-a-contiguous-run/continued-after-crash-inside-roll-over", case, detail2("(1) contiguous run"));
                                return;
                            }
                            if all_sized && disk2 != present2.iter().map(|f| f.1).sum::<u64>() {
                                acc.violation("C06/disk_used_bytes-mismatch/continued-after-crash-inside-roll-over", case, detail2("(4) disk accounting"));
                                return;
                            }
                        }
                    }
                    continue;
                }
                if let Ok(s2) = crate::ops::Sut::open(&side, crate::ops::Policy::AlwaysFlush, key, false) {
                    if let Ok(snap2) = Snapshot::take(s2.log()) {
                        let mut min_born2: Option<u64> = None;
                        let mut unknown = false;
                        for (q, qs) in &snap2.queues {
                            for r in &qs.recs {
                                match born_all.get(&(q.clone(), r.pos, r.hash)) {
                                    Some(b) => min_born2 = Some(min_born2.map(|m: u64| m.min(*b)).unwrap_or(*b)),
                                    None => unknown = true,
                                }
                            }
                        }
                        let present2 = list_wal_files(&side);
                        let nums2: Vec<u64> = present2.iter().map(|f| f.0).collect();
                        let disk2 = s2.log().resource_usage().disk_used_bytes as u64;
                        acc.eval();
                        acc.count("checks_after_open_of_a_call_boundary_crash_image");
                        if img_kind != "call-boundary" {
                            acc.count("checks_after_open_of_a_crash_image_right_after_roll_over");
                        } else if !policy.always() {
                            acc.count("checks_after_open_of_a_crash_image_with_buffered_tail_lost");
                        }
                        let highest_before = before.iter().max().copied().unwrap_or(0);
                        let detail2 = |what: &str| json!({"history": d.history_json(400), "crash_image_taken_after_call": st.op.to_json(), "crash_image_kind": img_kind, "violated": what, "wal_files_in_crash_image": before, "wal_files_after_open": nums2, "oldest_retained_record_born_in_file": min_born2, "disk_used_bytes": disk2, "policy": policy.name()});
                        let contiguous2 = nums2.windows(2).all(|w| w[1] == w[0] + 1);
                        if nums2.is_empty() || !contiguous2 {
                            acc.violation("C06/files-not-a-contiguous-run/after-open-of-crash-image", case, detail2("(1) contiguous run"));
                            return;
                        }
                        if disk2 != present2.iter().map(|f| f.1).sum::<u64>() {
                            acc.violation("C06/disk_used_bytes-mismatch/after-open-of-crash-image", case, detail2("(4) disk accounting"));
                            return;
                        }
                        if !unknown {
                            let bound = min_born2.map(|b| b.min(highest_before)).unwrap_or(highest_before);
                            if nums2[0] < bound {
                                acc.violation("C06/stale-file-kept/after-open-of-crash-image", case, detail2(&format!("(2) oldest present file {} is older than the bound {}", nums2[0], bound)));
                                return;
                            }
                        }
                    }
                }
            }
            let kind = match (&st.op, &st.outcome) {
                (Op::Truncate { .. }, Outcome::Truncated { .. }) => "truncate",
                (Op::Delete { .. }, Outcome::Deleted { .. }) => "delete_queue",
                (Op::Restart, Outcome::Restarted) => "open",
                (Op::Restart, other) => {
                    acc.inconclusive(format!("restart failed (C01 territory): {:?}", other));
                    return;
                }
                _ => continue,
            };
            // retained records from the public API
            // what is retained according to the sequential specification (C05's model run
            // alongside), not according to the library's own read accessors: a record the
            // library failed to evict must not justify the file it pins
            let snap = model.snapshot();
            let mut min_born: Option<(u64, String, u64)> = None;
            let mut retained = 0u64;
            let mut unknown_born = false;
            for (q, qs) in &snap.queues {
                for r in &qs.recs {
                    retained += 1;
                    match born.get(&(q.clone(), r.pos)) {
                        Some(b) => {
                            if min_born.as_ref().map(|m| *b < m.0).unwrap_or(true) {
                                min_born = Some((*b, q.clone(), r.pos));
                            }
                        }
                        None => unknown_born = true,
                    }
                }
            }
            // forget evicted records
            born.retain(|k, _| snap.queues.get(&k.0).map(|qs| qs.recs.binary_search_by_key(&k.1, |r| r.pos).is_ok()).unwrap_or(false));
            if unknown_born {
                acc.inconclusive("a retained record has no recorded append (C05 territory)".to_string());
                return;
            }
            let present = list_wal_files(&dir);
            let nums: Vec<u64> = present.iter().map(|f| f.0).collect();
            let disk = d.sut.log().resource_usage().disk_used_bytes as u64;
            let unlinked_now = d.io.unlinks - before_unlinks;
            acc.eval();
            acc.count(&format!("checks_after_{}", kind));
            if real {
                acc.count("realsize_checks");
                if unlinked_now > 0 {
                    acc.count("realsize_checks_where_files_were_unlinked");
                }
                acc.max("max_realsize_file_bytes", present.iter().map(|f| f.1).max().unwrap_or(0));
            }
            if unlinked_now > 0 {
                acc.count("checks_where_files_were_unlinked");
                acc.add("files_unlinked_in_checked_calls", unlinked_now);
            }
            if nums.len() >= 3 {
                acc.count("checks_with_3_or_more_files_present");
            }
            if nums.len() >= 2 || unlinked_now > 0 {
                let mut h = hash_combine(retained, min_born.as_ref().map(|m| m.0 + 1).unwrap_or(0));
                for n in &nums {
                    h = hash_combine(h, *n);
                }
                acc.distinct(h);
            }
            let detail = |what: &str| {
                json!({
                    "history": d.history_json(400), "after_call": st.op.to_json(), "violated": what,
                    "wal_files_present": nums, "file_current_when_call_began": cur_begin, "file_current_now": cur,
                    "oldest_retained_record": min_born.as_ref().map(|m| json!({"born_in_file": m.0, "queue": short(&m.1), "position": m.2})),
                    "retained_records": retained, "disk_used_bytes": disk, "sizes": present.iter().map(|f| f.1).collect::<Vec<_>>(),
                })
            };
            // (1) contiguous run ending at the file being written
            let contiguous = nums.windows(2).all(|w| w[1] == w[0] + 1);
            if nums.is_empty() || !contiguous {
                acc.violation(format!("C06/files-not-a-contiguous-run/after-{}", kind), case, detail("(1) contiguous run"));
                return;
            }
            if precise && *nums.last().unwrap() != cur {
                acc.violation(format!("C06/run-does-not-end-at-current-file/after-{}", kind), case, detail("(1) run must end at the file being written"));
                return;
            }
            // (4) disk accounting
            let total: u64 = present.iter().map(|f| f.1).sum();
            if disk != total {
                acc.violation(format!("C06/disk_used_bytes-mismatch/after-{}", kind), case, detail("(4) disk_used_bytes == sum of file sizes"));
                return;
            }
            // (3) safety: the file of every retained record is present
            if let (true, Some((b, _, _))) = (precise, &min_born) {
                if nums[0] > *b {
                    acc.violation(format!("C06/file-of-retained-record-removed/after-{}", kind), case, detail("(3) file holding a retained record is gone"));
                    return;
                }
            }
            // (2) reclamation bound
            if precise {
                let bound = match (&min_born, kind) {
                    (Some((b, _, _)), "open") => *b, // at open: nothing is being written yet by the caller
                    (Some((b, _, _)), _) => (*b).min(cur_begin),
                    (None, _) => cur_begin,
                };
                // for `open` with no retained record the bound is the highest file present
                // before the call, which is cur_begin as tracked
                if nums[0] < bound {
                    acc.violation(
                        format!("C06/stale-file-kept/after-{}", kind),
                        case,
                        detail(&format!("(2) oldest present file {} is older than the bound {}", nums[0], bound)),
                    );
                    return;
                }
                if min_born.as_ref().map(|m| m.0 == nums[0]).unwrap_or(false) {
                    acc.count("checks_where_oldest_file_is_pinned_by_a_retained_record");
                }
                if unlinked_now == 0 && nums.len() >= 2 {
                    acc.count("checks_where_nothing_could_be_unlinked");
                }
            }
            acc.max("max_files_present_at_a_check", nums.len() as u64);
        }
        acc.add("wal_files_created", d.io.creates);
        acc.add("wal_files_unlinked", d.io.unlinks);
        acc.sample(|| json!({"case": case, "history_excerpt": d.history_json(12), "wal_files_present_at_end": list_wal_files(&dir).iter().map(|f| f.0).collect::<Vec<_>>()}));
    }
}
