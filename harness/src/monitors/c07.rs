//! C07 -- entries of any size round-trip at any block or file alignment.
//! In-memory leg over hook H2 (record writer -> record reader) + through-files leg.
//! DESIGN.md 4/C07.

use std::io;

use mrecordlog::verif_hooks::{FrameWriter, RecordReader, RecordWriter};
use mrecordlog::{BlockRead, BlockWrite, PersistAction, Serializable, BLOCK_NUM_BYTES};
use serde_json::json;

use super::common::{is_wal_name, Driver};
use crate::gen::Profile;
use crate::ops::{Op, Outcome, Policy, Snapshot};
use crate::runner::{Acc, Ctx, Monitor, Tier};
use crate::shim::Ev;
use crate::util::{hash_combine, Rng};

pub struct C07;

const B: usize = BLOCK_NUM_BYTES;
const H: usize = 7;

/// In-memory block writer (the harness's own; the repository's is test-only).
#[derive(Default)]
struct MemWriter {
    buf: std::rc::Rc<std::cell::RefCell<Vec<u8>>>,
}

impl BlockWrite for MemWriter {
    fn write(&mut self, data: &[u8]) -> io::Result<()> {
        assert!(data.len() <= self.num_bytes_remaining_in_block(), "writer handed a buffer crossing a block boundary");
        self.buf.borrow_mut().extend_from_slice(data);
        Ok(())
    }
    fn persist(&mut self, _a: PersistAction) -> io::Result<()> {
        Ok(())
    }
    fn num_bytes_remaining_in_block(&self) -> usize {
        B - (self.buf.borrow().len() % B)
    }
}

struct MemReader {
    data: Vec<u8>,
    block: Box<[u8; B]>,
    next: usize,
}

impl MemReader {
    fn new(mut data: Vec<u8>) -> MemReader {
        let padded = ((data.len() + B - 1) / B).max(1) * B;
        data.resize(padded, 0);
        let mut block = Box::new([0u8; B]);
        block.copy_from_slice(&data[..B]);
        MemReader { data, block, next: B }
    }
}

impl BlockRead for MemReader {
    fn next_block(&mut self) -> io::Result<bool> {
        if self.next + B > self.data.len() {
            return Ok(false);
        }
        self.block.copy_from_slice(&self.data[self.next..self.next + B]);
        self.next += B;
        Ok(true)
    }
    fn block(&self) -> &[u8; B] {
        &self.block
    }
}

struct Raw<'a>(&'a [u8]);

impl<'a> Serializable<'a> for Raw<'a> {
    fn serialize(&self, buffer: &mut Vec<u8>) {
        buffer.clear();
        buffer.extend_from_slice(self.0);
    }
    fn deserialize(buffer: &'a [u8]) -> Option<Self> {
        Some(Raw(buffer))
    }
}

/// Expected number of bytes the writer pushes for an entry of `len` bytes starting at
/// block offset `s` (independent re-computation from the format description).
fn expected_written(s: usize, len: usize) -> (u64, usize) {
    let mut cur = s % B;
    let mut left = len;
    let mut total = 0u64;
    loop {
        let mut rem = B - cur;
        if rem < H {
            total += rem as u64;
            cur = 0;
            rem = B;
        }
        let take = left.min(rem - H);
        total += (H + take) as u64;
        cur = (cur + H + take) % B;
        left -= take;
        if left == 0 {
            break;
        }
    }
    (total, cur)
}

/// Round-trip a sequence of entries; returns Err(description) on any difference.
fn round_trip(entries: &[Vec<u8>]) -> Result<(), String> {
    let shared = std::rc::Rc::new(std::cell::RefCell::new(Vec::new()));
    let mut w: RecordWriter<MemWriter> = RecordWriter::from(FrameWriter::create(MemWriter { buf: shared.clone() }));
    let mut cursor = 0usize;
    for (i, e) in entries.iter().enumerate() {
        let n = w.write_record(Raw(e)).map_err(|e| format!("write_record failed: {}", e))?;
        let (want, newcur) = expected_written(cursor, e.len());
        if n != want {
            return Err(format!("entry {} (len {}) at block offset {}: write_record reported {} bytes, the format prescribes {}", i, e.len(), cursor % B, n, want));
        }
        let got_len = shared.borrow().len();
        cursor += want as usize;
        if got_len != cursor {
            return Err(format!("entry {}: writer cursor {} != sum of reported bytes {}", i, got_len, cursor));
        }
        let _ = newcur;
    }
    drop(w);
    let bytes = std::mem::take(&mut *shared.borrow_mut());
    let mut r = RecordReader::open(MemReader::new(bytes));
    for (i, e) in entries.iter().enumerate() {
        match r.read_record::<Raw>() {
            Ok(Some(Raw(got))) => {
                if got != &e[..] {
                    let first_diff = got.iter().zip(e.iter()).position(|(a, b)| a != b);
                    return Err(format!("entry {}: read back {} bytes, wrote {}; first differing byte at {:?}", i, got.len(), e.len(), first_diff));
                }
            }
            Ok(None) => return Err(format!("entry {} (len {}): reader reports end of log", i, e.len())),
            Err(err) => return Err(format!("entry {} (len {}): reader error {:?}", i, e.len(), err)),
        }
    }
    match r.read_record::<Raw>() {
        Ok(None) => Ok(()),
        Ok(Some(Raw(g))) => Err(format!("reader returned a phantom entry of {} bytes after the last one", g.len())),
        Err(err) => Err(format!("reader error after the last entry: {:?}", err)),
    }
}

fn lens_for(s: usize) -> Vec<usize> {
    let rem = B - s % B;
    let mut v: Vec<i64> = (0..=16).collect();
    let cap = (B - H) as i64;
    let first = if rem >= H { (rem - H) as i64 } else { cap };
    for d in -9i64..=9 {
        v.push(first + d);
        v.push(rem as i64 + d);
        v.push(cap + d);
        for k in 1..=9i64 {
            v.push(k * cap + first + d);
        }
    }
    v.push(300 * 1024 + (s as i64 % 13));
    let mut v: Vec<usize> = v.into_iter().filter(|x| *x >= 0).map(|x| x as usize).collect();
    v.sort_unstable();
    v.dedup();
    v
}

fn fill(len: usize, seed: u64) -> Vec<u8> {
    let mut v = vec![0u8; len];
    Rng::new(seed).fill(&mut v);
    v
}

const SLICES: u64 = 256;

impl Monitor for C07 {
    fn id(&self) -> &'static str {
        "C07"
    }
    fn level(&self) -> &'static str {
        "exploration"
    }
    fn num_cases(&self, tier: Tier) -> u64 {
        // cases 0..SLICES: in-memory alignment sweep (slice i of the offset space);
        // then random-sequence cases; then through-files cases
        SLICES + tier.pick(400, 8_000) + tier.pick(480, 8_000)
    }
    fn floors(&self, tier: Tier) -> Vec<(&'static str, u64)> {
        vec![
            ("inmem_round_trips", tier.pick(150_000, 7_000_000)),
            ("inmem_start_offsets_covered", tier.pick(1_500, 32_762)),
            ("inmem_entries_ending_exactly_at_block_end", tier.pick(1_000, 30_000)),
            ("inmem_entries_leaving_1_to_6_bytes_in_block", tier.pick(5_000, 150_000)),
            ("inmem_entries_with_empty_first_frame", 100),
            ("inmem_random_sequences", tier.pick(300, 6_000)),
            ("files_entries_spanning_two_or_more_files", tier.pick(300, 5_000)),
            ("files_entries_ending_exactly_at_file_end", tier.pick(20, 300)),
            ("files_entries_starting_with_under_7_bytes_left_in_block", tier.pick(50, 800)),
            ("files_restart_comparisons", tier.pick(1_500, 25_000)),
            ("entries_written_with_frame_checksum_zero", tier.pick(100, 2_000)),
        ]
    }
    fn rule(&self) -> String {
        "in-memory leg (hook H2): case = (start offset s in block, entry length L, follower) written with the real RecordWriter into the harness's block writer and read back with the real RecordReader; thorough enumerates EVERY reachable s (that sub-space is exhaustive; the evidence flag stays false because the other legs are sampled) in {0} U [7,32768) x L in {0..16} U {first-frame capacity, bytes-left-in-block, 32761, k*32761 + first-frame capacity (k=1..9)} +- 9 U {~300 KiB}; quick takes every s within 80 bytes of a block edge plus a seeded sample of the rest; plus random sequences of 2..200 entries. Through-files leg: 'align' histories through the public API whose payload sizes are solved from the traced write cursor so entries start/end at chosen block/file offsets, compared across restarts. evaluation = one round trip (or one restart comparison); distinct_nontrivial = distinct (s, L) pairs plus distinct traced (bytes-left-at-start class, end class, files spanned) triples".into()
    }
    fn assumptions(&self) -> Vec<String> {
        vec![
            "in-memory leg uses the harness's own BlockWrite/BlockRead implementations around the repository's FrameWriter/RecordWriter/RecordReader (re-exported by hook H2)".into(),
            "the expected byte count of each entry is recomputed independently from the format description".into(),
        ]
    }
    fn run_case(&self, ctx: &Ctx, case: u64, acc: &mut Acc) {
        let nseq = ctx.tier.pick(400, 8_000);
        if case < SLICES {
            self.sweep(ctx, case, acc);
        } else if case < SLICES + nseq {
            self.sequences(ctx, case, acc);
        } else {
            self.through_files(ctx, case, acc);
        }
    }
}

impl C07 {
    fn sweep(&self, ctx: &Ctx, case: u64, acc: &mut Acc) {
        // reachable start offsets: 0 and 7..B-1
        let all: Vec<usize> = std::iter::once(0usize).chain(H..B).collect();
        let mut rng = Rng::from_parts(&ctx.case_seed(case));
        let mut sampled = false;
        for (i, &s) in all.iter().enumerate() {
            if (i as u64) % SLICES != case {
                continue;
            }
            let near_edge = s < 80 || s > B - 80;
            if ctx.tier == Tier::Quick && !near_edge && !rng.chance(1, 16) {
                continue;
            }
            acc.count("inmem_start_offsets_covered");
            let filler = if s == 0 { None } else { Some(fill(s - H, s as u64)) };
            for l in lens_for(s) {
                let entry = fill(l, (s as u64) << 20 ^ l as u64);
                let follower: Vec<u8> = match (s + l) % 3 {
                    0 => Vec::new(),
                    1 => vec![0xAB],
                    _ => fill(B - H - ((s + l) % 11), 77),
                };
                let mut entries: Vec<Vec<u8>> = Vec::new();
                if let Some(f) = &filler {
                    entries.push(f.clone());
                }
                entries.push(entry);
                entries.push(follower);
                acc.eval();
                acc.count("inmem_round_trips");
                acc.distinct(hash_combine(s as u64, l as u64));
                // classification for the floors (format arithmetic only)
                let rem = B - s % B;
                let (_, end_cur) = expected_written(s, l);
                if end_cur == 0 {
                    acc.count("inmem_entries_ending_exactly_at_block_end");
                }
                if end_cur != 0 && B - end_cur < H {
                    acc.count("inmem_entries_leaving_1_to_6_bytes_in_block");
                }
                if rem == H && l > 0 {
                    acc.count("inmem_entries_with_empty_first_frame");
                }
                if rem < H {
                    acc.count("inmem_entries_starting_in_padding_zone");
                }
                if let Err(e) = round_trip(&entries) {
                    acc.violation(
                        format!("C07/in-memory-round-trip/{}", e.split(':').next().unwrap_or("").chars().take(40).collect::<String>()),
                        case,
                        json!({"start_offset_in_block": s, "entry_len": l, "follower_len": entries.last().map(|f| f.len()), "error": e}),
                    );
                    return;
                }
                if !sampled {
                    sampled = true;
                    acc.sample(|| json!({"leg": "in-memory", "start_offset_in_block": s, "entry_lengths_tried": lens_for(s).len(), "example_entry_len": l}));
                }
            }
        }
    }

    fn sequences(&self, ctx: &Ctx, case: u64, acc: &mut Acc) {
        let mut rng = Rng::from_parts(&ctx.case_seed(case));
        let n = rng.usize(2, 200);
        let mut entries = Vec::with_capacity(n);
        let mut lens = Vec::new();
        let mut cursor = 0usize;
        for i in 0..n {
            let rem = B - cursor % B;
            let l = match rng.below(10) {
                0 => 0,
                1..=3 => rng.usize(0, 100),
                4..=5 => rng.usize(100, 5000),
                6 => rem.saturating_sub(H) + rng.usize(0, 2),
                7 => rem.saturating_sub(H).saturating_sub(rng.usize(0, 8)),
                8 => rng.usize(B - 20, B + 20),
                _ => rng.usize(B, 5 * B),
            };
            lens.push(l);
            entries.push(fill(l, (case << 16) ^ i as u64));
            cursor += expected_written(cursor % B, l).0 as usize;
        }
        acc.eval();
        acc.count("inmem_random_sequences");
        acc.add("inmem_entries_in_sequences", n as u64);
        acc.distinct(hash_combine(case, n as u64));
        if let Err(e) = round_trip(&entries) {
            acc.violation("C07/in-memory-sequence", case, json!({"entry_lengths": lens, "error": e}));
        }
    }

    fn through_files(&self, ctx: &Ctx, case: u64, acc: &mut Acc) {
        let parts = ctx.case_seed(case);
        let mut rng = Rng::from_parts(&parts);
        let dir = ctx.scratch.sub("c07");
        let key = parts[2] ^ parts[1].rotate_left(32);
        let policy = if rng.chance(1, 2) { Policy::AlwaysFlush } else { Policy::AlwaysFsync };
        let profile = *rng.pick(&[Profile::Align, Profile::Align, Profile::Align, Profile::Align, Profile::Align, Profile::Huge, Profile::BigName, Profile::Idle]);
        let mut d = match Driver::start(&dir, policy, key, &parts, profile, rng.usize(1, 3)) {
            Ok(d) => d,
            Err(e) => {
                acc.inconclusive(format!("cannot open a fresh directory: {:?}", e));
                return;
            }
        };
        d.gen.cfg.restart_pm = 60;
        d.gen.cfg.bad_pm = 10;
        d.gen.cfg.persist_pm = 0;
        let fsz = d.file_size as usize;
        let nops = rng.usize(20, 60);
        // what was appended, according to the sequential specification: the round trip is
        // judged against it, not against the library's own live view
        let mut model = crate::ops::Model::new(key);
        for i in 0..nops {
            let st = if i + 1 == nops {
                d.apply(Op::Restart)
            } else {
                d.step()
            };
            model.apply(st.k, &st.op);
            if st.outcome.is_panic() && matches!(st.op, Op::Append { .. }) {
                // an entry that cannot even be written is the shortest failed round trip
                acc.violation("C07/through-files/append-panicked", case, json!({"history": d.history_json(200), "call": st.op.to_json(), "outcome": st.outcome.to_json()}));
                return;
            }
            if st.outcome.is_io_err() {
                acc.inconclusive(format!("I/O error from a live call: {:?}", st.outcome));
                return;
            }
            match &st.op {
                Op::Append { .. } if matches!(st.outcome, Outcome::Appended { last: Some(_), .. }) => {
                    // where did the entry start and end, according to the trace?
                    let writes: Vec<(&String, u64, usize)> = st
                        .events
                        .iter()
                        .filter_map(|e| match e {
                            Ev::Write { name, off, data, .. } if is_wal_name(name) && !data.is_empty() => Some((name, *off, data.len())),
                            _ => None,
                        })
                        .collect();
                    if let (Some(first), Some(last)) = (writes.first(), writes.last()) {
                        let start = first.1 as usize;
                        let end = last.1 as usize + last.2;
                        let files: std::collections::BTreeSet<&String> = writes.iter().map(|w| w.0).collect();
                        let rem_start = B - start % B;
                        acc.count("files_entries_traced");
                        if files.len() >= 2 {
                            acc.count("files_entries_spanning_two_or_more_files");
                        }
                        if files.len() >= 3 {
                            acc.count("files_entries_spanning_three_or_more_files");
                        }
                        if end == fsz {
                            acc.count("files_entries_ending_exactly_at_file_end");
                        }
                        if end % B == 0 {
                            acc.count("files_entries_ending_exactly_at_block_end");
                        }
                        if end % B != 0 && B - end % B < H {
                            acc.count("files_entries_leaving_1_to_6_bytes_in_block");
                        }
                        if rem_start < H || (rem_start == B && start > 0 && writes.len() > 1 && first.2 < H) {
                            acc.count("files_entries_starting_with_under_7_bytes_left_in_block");
                        }
                        if rem_start == H {
                            acc.count("files_entries_with_empty_first_frame");
                        }
                        let sc = if rem_start <= 16 { rem_start } else { 17 + rem_start / 4096 };
                        let ec = if end % B == 0 { 0 } else if B - end % B <= 16 { B - end % B } else { 17 };
                        acc.distinct(hash_combine(hash_combine(0xF11E, sc as u64), hash_combine(ec as u64, files.len() as u64)));
                    }
                }
                Op::Restart => {}
                _ => {}
            }
            if matches!(st.op, Op::Restart) {
                continue;
            }
            // restart comparison right after interesting appends (and at the end)
            let do_restart = i + 2 >= nops || rng.chance(1, 5);
            if do_restart {
                let before = match Snapshot::take(d.sut.log()) {
                    Ok(s) => s,
                    Err(e) => {
                        acc.inconclusive(format!("snapshot failed: {}", e));
                        return;
                    }
                };
                let r = d.apply(Op::Restart);
                if let Outcome::Err(e) = &r.outcome {
                    acc.violation(format!("C07/through-files/open-failed/{:?}", e), case, json!({"history": d.history_json(200)}));
                    return;
                }
                let after = match Snapshot::take(d.sut.log()) {
                    Ok(s) => s,
                    Err(e) => {
                        acc.violation("C07/through-files/unreadable-after-restart", case, json!({"history": d.history_json(200), "error": e}));
                        return;
                    }
                };
                acc.eval();
                acc.count("files_restart_comparisons");
                if let Some(diff) = before.diff(&after) {
                    acc.violation(
                        format!("C07/through-files/round-trip/{}", super::common::diff_class(&before, &after)),
                        case,
                        json!({"history": d.history_json(200), "diff": diff, "cursor_before_restart": d.cursor}),
                    );
                    return;
                }
                let appended = model.snapshot();
                if let Some(diff) = appended.diff(&after) {
                    acc.violation(
                        format!("C07/through-files/round-trip-of-what-was-appended/{}", super::common::diff_class(&appended, &after)),
                        case,
                        json!({"history": d.history_json(200), "diff_between_appended_and_read_back": diff}),
                    );
                    return;
                }
            }
        }
        acc.sample(|| json!({"leg": "through-files", "case": case, "history_excerpt": d.history_json(8)}));
        drop(d);
        self.checksum_values(ctx, case, acc, &mut rng);
    }

    /// Entries whose frame checksum has a "special" value (0, all ones, ...): a reader that
    /// mistakes such a checksum for unwritten, zero-filled space loses the entry and all that
    /// follows.  The last four payload bytes are computed so that crc32(type ++ entry) hits
    /// the target (CRC-32 is linear: any target is reachable with 4 free bytes).
    fn checksum_values(&self, ctx: &Ctx, case: u64, acc: &mut Acc, rng: &mut Rng) {
        let dir = ctx.scratch.sub("c07-crc");
        crate::util::clear_dir(&dir);
        let q = "crc";
        let Ok(mut log) = mrecordlog::MultiRecordLog::open(&dir) else { return };
        let Ok(c0) = log.create_queue(q) else { return };
        let mut cursor = c0.wal_bytes_written as usize;
        let mut expected: Vec<(u64, Vec<u8>)> = Vec::new();
        let mut put = |log: &mut mrecordlog::MultiRecordLog, payload: Vec<u8>, expected: &mut Vec<(u64, Vec<u8>)>, cursor: &mut usize| -> Option<usize> {
            let o = log.append_record(q, None, &payload[..]).ok()?;
            expected.push((o.last_position?, payload));
            *cursor += o.wal_bytes_written as usize;
            Some(o.wal_bytes_written as usize)
        };
        let mut filler = vec![0u8; rng.usize(0, 3000)];
        rng.fill(&mut filler);
        if put(&mut log, filler, &mut expected, &mut cursor).is_none() {
            return;
        }
        let targets = [0u32, 0xFFFF_FFFF, 1, 0x0100_0000, 0x0000_0100, 0x8000_0000, rng.next() as u32];
        for _ in 0..3 {
            let target = *rng.pick(&targets);
            let overhead = 11 + q.len() + 12;
            let rem = B - cursor % B;
            if rem < H + overhead + 8 + H {
                let mut f = vec![0u8; 64];
                rng.fill(&mut f);
                if put(&mut log, f, &mut expected, &mut cursor).is_none() {
                    return;
                }
                continue;
            }
            let plen = rng.usize(4, (rem - H - overhead).min(2000));
            let pos = expected.len() as u64;
            let mut payload = vec![0u8; plen];
            rng.fill(&mut payload);
            // entry = [4][position][name_len][name][position][len][payload]
            let mut entry = vec![4u8];
            entry.extend_from_slice(&pos.to_le_bytes());
            entry.extend_from_slice(&(q.len() as u16).to_le_bytes());
            entry.extend_from_slice(q.as_bytes());
            entry.extend_from_slice(&pos.to_le_bytes());
            entry.extend_from_slice(&(plen as u32).to_le_bytes());
            let body_at = entry.len();
            entry.extend_from_slice(&payload);
            let n = entry.len();
            let mut h = crc32fast::Hasher::new();
            h.update(&[1u8]);
            h.update(&entry[..n - 4]);
            let forged = forge_crc_suffix(h.finalize(), target);
            entry[n - 4..].copy_from_slice(&forged);
            let mut h2 = crc32fast::Hasher::new();
            h2.update(&[1u8]);
            h2.update(&entry);
            if h2.finalize() != target {
                acc.count("checksum_value_forgeries_that_did_not_verify_(harness)");
                continue;
            }
            payload.copy_from_slice(&entry[body_at..]);
            let Some(written) = put(&mut log, payload, &mut expected, &mut cursor) else { return };
            if written != H + n {
                acc.count("checksum_value_entries_not_in_a_single_full_frame");
                continue;
            }
            acc.count("entries_written_with_a_chosen_frame_checksum");
            if target == 0 {
                acc.count("entries_written_with_frame_checksum_zero");
            }
            let mut after = vec![0u8; rng.usize(1, 40)];
            rng.fill(&mut after);
            if put(&mut log, after, &mut expected, &mut cursor).is_none() {
                return;
            }
        }
        drop(log);
        let Ok(log) = mrecordlog::MultiRecordLog::open(&dir) else {
            acc.violation("C07/through-files/chosen-checksum/open-failed", case, json!({"records": expected.len()}));
            return;
        };
        let got: Vec<(u64, Vec<u8>)> = match log.range(q, ..) {
            Ok(it) => it.map(|r| (r.position, r.payload.to_vec())).collect(),
            Err(_) => Vec::new(),
        };
        acc.eval();
        acc.count("files_restart_comparisons");
        if got != expected {
            let first_bad = got.iter().zip(expected.iter()).position(|(a, b)| a != b).unwrap_or(got.len().min(expected.len()));
            acc.violation(
                "C07/through-files/entry-with-a-chosen-frame-checksum-not-read-back",
                case,
                json!({"appended_records": expected.len(), "read_back_records": got.len(), "first_difference_at_index": first_bad, "note": "one or more entries were written with a frame checksum of 0 / 0xFFFFFFFF / other chosen values"}),
            );
        }
    }
}

/// Four bytes which, appended to data whose CRC-32 is `crc_so_far`, make the CRC-32 of the
/// whole equal to `target` (reflected CRC-32, polynomial 0xEDB88320).
fn forge_crc_suffix(crc_so_far: u32, target: u32) -> [u8; 4] {
    let mut table = [0u32; 256];
    for i in 0..256u32 {
        let mut c = i;
        for _ in 0..8 {
            c = if c & 1 != 0 { 0xEDB8_8320 ^ (c >> 1) } else { c >> 1 };
        }
        table[i as usize] = c;
    }
    let mut want = target ^ 0xFFFF_FFFF;
    let mut idx = [0usize; 4];
    for i in (0..4).rev() {
        let t = (0..256).find(|k| table[*k] >> 24 == want >> 24).unwrap();
        idx[i] = t;
        want = (want ^ table[t]) << 8;
    }
    let mut reg = crc_so_far ^ 0xFFFF_FFFF;
    let mut out = [0u8; 4];
    for i in 0..4 {
        out[i] = ((reg ^ idx[i] as u32) & 0xFF) as u8;
        reg = (reg >> 8) ^ table[idx[i]];
    }
    out
}

/// Auxiliary (Miri / valgrind) workload: `n` round trips at offsets next to block edges.
pub fn aux_round_trips(seed: u64, n: usize) -> Result<String, String> {
    let mut rng = Rng::new(seed ^ 0xA007);
    let mut done = 0;
    for _ in 0..n {
        let s = match rng.below(4) {
            0 => 0,
            1 => rng.usize(H, 40),
            2 => B - rng.usize(1, 40),
            _ => rng.usize(H, B - 1),
        };
        let rem = B - s % B;
        let l = match rng.below(5) {
            0 => rng.usize(0, 16),
            1 => rem.saturating_sub(H) + rng.usize(0, 9),
            2 => rem.saturating_sub(H).saturating_sub(rng.usize(0, 9)),
            3 => B - H + rng.usize(0, 3),
            _ => rng.usize(0, 2 * B),
        };
        let mut entries: Vec<Vec<u8>> = Vec::new();
        if s > 0 {
            entries.push(fill(s - H, s as u64));
        }
        entries.push(fill(l, l as u64));
        entries.push(fill(rng.usize(0, 20), 3));
        round_trip(&entries).map_err(|e| format!("s={} l={}: {}", s, l, e))?;
        done += 1;
    }
    Ok(format!("round_trips={}", done))
}
