//! C08 -- damaged WAL bytes never surface as records that were not appended.
//! DESIGN.md 4/C08.

use std::collections::{BTreeMap, HashMap};
use std::panic::{catch_unwind, AssertUnwindSafe};

use serde_json::json;

use super::crash::{live_run, quiet_panics, LiveRun};
use crate::damage::{all_frames, inplace_damage};
use crate::gen::Profile;
use crate::image::{Builder, Image};
use crate::layout::{self, BLOCK};
use crate::ops::{payload_hash, short, Op, Outcome, Pid, Policy, Snapshot};
use crate::runner::{Acc, Ctx, Monitor, Tier};
use crate::util::{hash_combine, Rng};

pub struct C08;

/// Everything ever appended, per queue NAME (all incarnations): position -> [(len, hash)].
pub type Appended = BTreeMap<String, HashMap<u64, Vec<(u32, u64)>>>;

pub fn appended_records(run: &LiveRun) -> Appended {
    let mut a: Appended = BTreeMap::new();
    for (k, (op, out)) in run.ops.iter().zip(run.outcomes.iter()).enumerate() {
        if let (Op::Append { q, lens, .. }, Outcome::Appended { last: Some(last), .. }) = (op, out) {
            let first = last + 1 - lens.len() as u64;
            let m = a.entry(q.clone()).or_default();
            for (i, l) in lens.iter().enumerate() {
                let pid = Pid { op: k as u32, idx: i as u32, len: *l as u32 };
                m.entry(first + i as u64).or_default().push((*l as u32, payload_hash(run.key, pid)));
            }
        }
    }
    a
}

pub fn final_image(run: &LiveRun) -> Result<Image, String> {
    let mut b = Builder::new(run.initial.clone());
    for e in &run.events {
        b.apply(e);
    }
    if let Some(u) = b.unmodelled.first() {
        return Err(u.clone());
    }
    Ok(b.cur)
}

/// Does the damaged image contain a CRC-valid frame whose bytes differ from the original
/// image at the same place (i.e. the damage itself produced a frame that verifies)?
fn crc_valid_altered_frame(orig: &Image, dam: &Image) -> bool {
    for (n, d) in &dam.files {
        let o = orig.files.get(n);
        for f in layout::parse_frames(d) {
            if !f.crc_ok {
                continue;
            }
            let same = o.map(|o| o.len() >= f.end() && o[f.off..f.end()] == d[f.off..f.end()]).unwrap_or(false);
            if !same {
                return true;
            }
        }
    }
    false
}

/// Records of every well-formed AppendRecords entry that can be re-assembled from the
/// checksum-valid frames of `img` (layout::group_entries is the harness's own reading of the
/// format: Full, or First Middle* Last; a batch is valid when its record headers and payloads
/// end exactly at the end of the entry).
fn reference_records(img: &crate::image::Image) -> std::collections::HashSet<(String, u64, u32, u64)> {
    let names: Vec<&String> = img.files.keys().collect();
    let datas: Vec<&[u8]> = names.iter().map(|n| &img.files[*n][..]).collect();
    let mut frames = Vec::new();
    for (fi, d) in datas.iter().enumerate() {
        for f in crate::layout::parse_frames(d) {
            frames.push((fi, f));
        }
    }
    let mut out = std::collections::HashSet::new();
    for e in crate::layout::group_entries(&frames, &datas) {
        if e.etype != 4 {
            continue;
        }
        let Ok(q) = String::from_utf8(e.queue.clone()) else { continue };
        let mut p = 11 + e.queue.len();
        for (pos, l) in &e.records {
            let payload = &e.bytes[p + 12..p + 12 + *l as usize];
            out.insert((q.clone(), *pos, *l, crate::util::hash_bytes(payload)));
            p += 12 + *l as usize;
        }
    }
    out
}

impl Monitor for C08 {
    fn id(&self) -> &'static str {
        "C08"
    }
    fn level(&self) -> &'static str {
        "fault_enumeration"
    }
    fn num_cases(&self, tier: Tier) -> u64 {
        tier.pick(1600, 30_000)
    }
    fn floors(&self, tier: Tier) -> Vec<(&'static str, u64)> {
        vec![
            ("damaged_images_opened", tier.pick(60_000, 2_000_000)),
            ("open_ok_with_loss", tier.pick(10_000, 300_000)),
            ("open_ok_nothing_lost", tier.pick(1_000, 30_000)),
            ("records_checked_against_append_set", tier.pick(1_000_000, 30_000_000)),
            ("damage_aimed_at_len", tier.pick(3_000, 100_000)),
            ("damage_aimed_at_type", tier.pick(3_000, 100_000)),
            ("damage_aimed_at_crc", tier.pick(3_000, 100_000)),
            ("frames_retyped_as_another_valid_type", tier.pick(3_000, 100_000)),
            ("damage_kind_empty-frame-chain-to-block-end", tier.pick(3_000, 100_000)),
            ("damage_aimed_at_len-pointing-at-embedded-frame", tier.pick(2_000, 60_000)),
            ("images_with_a_frame_starting_at_a_forged_entry", tier.pick(100, 3_000)),
        ]
    }
    fn rule(&self) -> String {
        "case = one generated history (incl. delete/re-create, multi-frame entries, GC) whose final WAL image is damaged in 200 (quick) / 500 (thorough) different ways, each 1..8 in-place overwrites: bit flips, 1..64 garbage bytes, zero-fill, whole-block and multi-block garbage, copied stale chunks, chains of syntactically valid empty frames from a frame start to the end of its block, and variants aimed at the crc / len / type bytes, payload, whole frame and block edges of randomly chosen frames; evaluation = one open() of a damaged image; oracle: on Ok every recovered record must be (queue, position, len, content hash) of some append of the history and positions per queue strictly increase; distinct_nontrivial = distinct damaged images (by damage-set hash) that hit at least one byte inside the written extent of a file holding records".into()
    }
    fn assumptions(&self) -> Vec<String> {
        vec![
            "a recovered foreign record is classified crc_collision (inconclusive, as the statement allows) only if the damaged image contains a checksum-valid frame that differs from the original bytes".into(),
            "panics/hangs on damaged images are C10's subject and only counted here".into(),
        ]
    }
    fn run_case(&self, ctx: &Ctx, case: u64, acc: &mut Acc) {
        quiet_panics();
        let parts = ctx.case_seed(case);
        let mut rng = Rng::from_parts(&parts);
        let profile = *rng.pick(&[Profile::Mixed, Profile::Mixed, Profile::Gc, Profile::Gc, Profile::Dense, Profile::Delete, Profile::Delete, Profile::BigName, Profile::Idle, Profile::Huge, Profile::Align, Profile::Align, Profile::Align]);
        let nq = rng.usize(1, 4);
        let nops = rng.usize(8, 50);
        let live_dir = ctx.scratch.sub("c08-live");
        let key = parts[2] ^ parts[1].rotate_left(32);
        let run = match live_run(&live_dir, Policy::AlwaysFlush, key, &parts, profile, nq, nops, |c| {
            c.restart_pm = 30;
            c.bad_pm = 20;
        }) {
            Ok(r) => r,
            Err(e) => {
                acc.inconclusive(format!("live run failed: {}", e));
                return;
            }
        };
        crate::util::clear_dir(&live_dir);
        let img = match final_image(&run) {
            Ok(i) => i,
            Err(u) => {
                acc.inconclusive(format!("unmodelled file-system call: {}", u));
                return;
            }
        };
        let appended = appended_records(&run);
        let final_state = run.states.last().unwrap().clone();
        let frames = all_frames(&img);
        acc.count(&format!("histories_profile_{}", profile.name()));
        acc.add("frames_in_images", frames.len() as u64);
        // coverage: does some continuation frame of this image start exactly at a forged entry?
        let fe = crate::ops::forged_entry();
        let fixed = fe.len() - 11; // all but the per-payload unique record bytes
        let forged_starts = frames.iter().filter(|(n, f)| f.ftype >= 3 && f.len >= fe.len() && img.files[n][f.payload_off()..f.payload_off() + fixed] == fe[..fixed]).count();
        if forged_starts > 0 {
            acc.count("images_with_a_frame_starting_at_a_forged_entry");
        }
        let dir = ctx.scratch.sub("c08-rec");
        let rounds = ctx.tier.pick(200, 500);
        for round in 0..rounds {
            let mut dam = img.clone();
            let nd = match rng.below(10) {
                0..=5 => 1,
                6..=7 => 2,
                _ => rng.usize(3, 8),
            };
            let mut descs = Vec::new();
            let mut dh = hash_combine(case, round as u64);
            for _ in 0..nd {
                if let Some(d) = inplace_damage(&mut dam, &frames, &mut rng) {
                    if let Some(a) = d.get("aimed_at").and_then(|x| x.as_str()) {
                        acc.count(&format!("damage_aimed_at_{}", a));
                        if d.get("mode").and_then(|x| x.as_str()).map(|m| m.starts_with("retyped")).unwrap_or(false) {
                            acc.count("frames_retyped_as_another_valid_type");
                        }
                    } else if let Some(k) = d.get("kind").and_then(|x| x.as_str()) {
                        acc.count(&format!("damage_kind_{}", k));
                    }
                    dh = hash_combine(dh, crate::util::hash_str(&d.to_string()));
                    descs.push(d);
                }
            }
            if dam == img {
                acc.count("damage_sets_without_effect");
                continue;
            }
            acc.distinct(dh);
            dam.materialize(&dir);
            let r = catch_unwind(AssertUnwindSafe(|| {
                mrecordlog::MultiRecordLog::open(&dir).map(|log| Snapshot::take(&log))
            }));
            acc.eval();
            acc.count("damaged_images_opened");
            let snap = match r {
                Err(_) => {
                    acc.count("open_panicked_(C10_territory)");
                    continue;
                }
                Ok(Err(mrecordlog::error::ReadRecordError::Corruption)) => {
                    acc.count("open_err_corruption");
                    continue;
                }
                Ok(Err(mrecordlog::error::ReadRecordError::IoError(_))) => {
                    acc.count("open_err_io");
                    continue;
                }
                Ok(Ok(Err(e))) => {
                    acc.count("read_api_inconsistent_(C05_territory)");
                    let _ = e;
                    continue;
                }
                Ok(Ok(Ok(s))) => s,
            };
            if snap == final_state {
                acc.count("open_ok_nothing_lost");
            } else {
                acc.count("open_ok_with_loss");
            }
            // oracle
            let mut bad: Option<(String, serde_json::Value)> = None;
            let mut embedded_seen: Option<serde_json::Value> = None;
            'q: for (q, qs) in &snap.queues {
                if q == crate::ops::EMBEDDED_QUEUE {
                    // the listed finding D6; judged last so that it cannot hide anything else
                    embedded_seen = Some(json!({"queue": short(q), "records": qs.recs.len(), "position": qs.recs.first().map(|r| r.pos), "len": qs.recs.first().map(|r| r.len)}));
                    continue;
                }
                let mut prev: Option<u64> = None;
                for r in &qs.recs {
                    acc.count("records_checked_against_append_set");
                    if let Some(p) = prev {
                        if r.pos <= p {
                            bad = Some(("positions-not-increasing".into(), json!({"queue": short(q), "position": r.pos, "previous": p})));
                            break 'q;
                        }
                    }
                    prev = Some(r.pos);
                    let known = appended.get(q).and_then(|m| m.get(&r.pos)).map(|v| v.contains(&(r.len, r.hash))).unwrap_or(false);
                    if !known {
                        let elsewhere = appended.iter().any(|(_, m)| m.values().any(|v| v.contains(&(r.len, r.hash))));
                        let class = if !appended.contains_key(q) {
                            "record-in-queue-never-appended-to"
                        } else if elsewhere {
                            "appended-payload-at-wrong-queue-or-position"
                        } else {
                            "payload-never-appended"
                        };
                        bad = Some((class.into(), json!({"queue": short(q), "position": r.pos, "len": r.len})));
                        break 'q;
                    }
                }
            }
            if bad.is_none() {
                if let Some(w) = embedded_seen {
                    bad = Some(("frame-embedded-in-a-payload-surfaced-as-record".into(), w));
                }
            }
            if let Some((class, what)) = bad {
                if crc_valid_altered_frame(&img, &dam) {
                    acc.count("crc_collision_classified_inconclusive");
                    acc.inconclusive("a damaged frame verified its checksum (CRC-32 collision)".to_string());
                    continue;
                }
                let sig = format!("C08/{}", class);
                let known = acc.is_known(&sig);
                acc.violation(
                    sig,
                    case,
                    json!({"history": run.history_json(run.ops.len()), "damage": descs, "image": img.describe(), "foreign_record": what, "recovered": snap.to_json()}),
                );
                if known {
                    // a listed finding: keep exploring this image's other damage sets
                    continue;
                }
                return;
            }
            if round == 0 {
                acc.sample(|| json!({"case": case, "history": run.history_json(8), "image": img.describe(), "damage_set": descs, "outcome": if snap == final_state { "ok-nothing-lost" } else { "ok-with-loss" }}));
            }
        }

        // ---- block-copy leg: one 32 KiB block overwritten in place with a copy of another block
        // of the same log (a misdirected or replayed block write).  Every frame of the result
        // is checksum-valid, so this is the damage that tests what happens ABOVE the frame
        // layer: entry re-assembly and batch validation.
        let mut blocks: Vec<(String, usize)> = Vec::new();
        for (n, d) in &img.files {
            for b in 0..d.len() / BLOCK {
                if d[b * BLOCK..(b + 1) * BLOCK].iter().any(|x| *x != 0) {
                    blocks.push((n.clone(), b));
                }
            }
        }
        if blocks.len() >= 2 {
            for round in 0..ctx.tier.pick(40, 100) {
                let dst = rng.pick(&blocks).clone();
                let src = rng.pick(&blocks).clone();
                if dst == src {
                    continue;
                }
                let mut dam = img.clone();
                let copy: Vec<u8> = dam.files[&src.0][src.1 * BLOCK..(src.1 + 1) * BLOCK].to_vec();
                dam.files.get_mut(&dst.0).unwrap()[dst.1 * BLOCK..(dst.1 + 1) * BLOCK].copy_from_slice(&copy);
                if dam == img {
                    continue;
                }
                acc.distinct(hash_combine(hash_combine(case, 0xB10C), hash_combine(round as u64, (dst.1 * 4096 + src.1) as u64)));
                dam.materialize(&dir);
                let r = catch_unwind(AssertUnwindSafe(|| mrecordlog::MultiRecordLog::open(&dir).map(|log| Snapshot::take(&log))));
                acc.eval();
                acc.count("block_copy_images_opened");
                let Ok(Ok(Ok(snap))) = r else {
                    acc.count("block_copy_open_not_ok");
                    continue;
                };
                // what any reader of this format delivers from the damaged image: entries
                // re-assembled from the (all checksum-valid) frames, batches validated
                let mut reference: Option<std::collections::HashSet<(String, u64, u32, u64)>> = None;
                let mut bad: Option<(String, serde_json::Value)> = None;
                'bq: for (q, qs) in &snap.queues {
                    for r in &qs.recs {
                        acc.count("records_checked_against_append_set");
                        let known = appended.get(q).and_then(|m| m.get(&r.pos)).map(|v| v.contains(&(r.len, r.hash))).unwrap_or(false);
                        if known {
                            continue;
                        }
                        let refset = reference.get_or_insert_with(|| reference_records(&dam));
                        if refset.contains(&(q.clone(), r.pos, r.len, r.hash)) {
                            bad = Some(("frames-of-different-entries-spliced-by-a-block-copy".into(), json!({"queue": short(q), "position": r.pos, "len": r.len})));
                        } else {
                            bad = Some(("record-no-reader-of-the-format-would-deliver/after-block-copy".into(), json!({"queue": short(q), "position": r.pos, "len": r.len})));
                            break 'bq;
                        }
                    }
                }
                if let Some((class, what)) = bad {
                    let sig = format!("C08/{}", class);
                    let known = acc.is_known(&sig);
                    acc.violation(
                        sig,
                        case,
                        json!({"history": run.history_json(run.ops.len()), "damage": {"kind": "block-copy", "from": {"file": src.0, "block": src.1}, "over": {"file": dst.0, "block": dst.1}}, "image": img.describe(), "foreign_record": what, "recovered": snap.to_json()}),
                    );
                    if !known {
                        return;
                    }
                }
            }
        }
    }
}
