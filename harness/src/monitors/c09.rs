//! C09 -- frame payload damage costs only the entry it hits.  DESIGN.md 4/C09.

use std::collections::HashMap;
use std::panic::{catch_unwind, AssertUnwindSafe};

use serde_json::json;

use super::c08::final_image;
use super::crash::{live_run, quiet_panics};
use crate::damage::all_frames;
use crate::gen::Profile;
use crate::image::windows;
use crate::layout::HDR;
use crate::ops::{short, Op, Outcome, Policy, Snapshot};
use crate::runner::{Acc, Ctx, Monitor, Tier};
use crate::shim::Ev;
use crate::util::{hash_combine, Rng};

pub struct C09;

impl Monitor for C09 {
    fn id(&self) -> &'static str {
        "C09"
    }
    fn level(&self) -> &'static str {
        "fault_enumeration"
    }
    fn num_cases(&self, tier: Tier) -> u64 {
        tier.pick(1600, 30_000)
    }
    fn floors(&self, tier: Tier) -> Vec<(&'static str, u64)> {
        vec![
            ("damaged_images_opened", tier.pick(60_000, 1_500_000)),
            ("continuations_on_a_log_recovered_from_a_damaged_image", tier.pick(5_000, 100_000)),
            ("frames_damaged_type_first", tier.pick(1_000, 20_000)),
            ("frames_damaged_type_middle", tier.pick(300, 6_000)),
            ("frames_damaged_type_last", tier.pick(1_000, 20_000)),
            ("frames_damaged_type_full", tier.pick(10_000, 200_000)),
            ("frames_of_control_entries_damaged", tier.pick(5_000, 100_000)),
            ("retained_records_verified_intact", tier.pick(1_000_000, 20_000_000)),
            ("images_where_damage_cost_retained_records_of_the_hit_call_only", tier.pick(5_000, 100_000)),
        ]
    }
    fn rule(&self) -> String {
        "case = one generated history under Always(Flush) (so the syscall trace attributes every frame to the call that wrote it); for EVERY frame of the final WAL image and each of 4 alterations (flip one payload bit, overwrite the payload with garbage, flip one checksum bit, overwrite the checksum; length and type untouched) the image is opened; evaluation = one open of a one-frame-damaged image; oracle: Ok, and every retained record of the undamaged final state that was not written by the damaged frame's call is present with identical bytes (extra records allowed); distinct_nontrivial = distinct (case, frame, alteration) on frames whose entry is not the last entry of the log".into()
    }
    fn assumptions(&self) -> Vec<String> {
        vec![
            "the layout parser used to find frames self-validates on every image (all bytes written by each call must tile into checksum-valid frames); if it does not, the case is inconclusive".into(),
            "frames with an empty payload are damaged in their checksum only".into(),
        ]
    }
    fn exhaustive(&self, _tier: Tier) -> bool {
        false
    }
    fn run_case(&self, ctx: &Ctx, case: u64, acc: &mut Acc) {
        quiet_panics();
        let parts = ctx.case_seed(case);
        let mut rng = Rng::from_parts(&parts);
        let profile = *rng.pick(&[Profile::Mixed, Profile::Gc, Profile::Gc, Profile::Dense, Profile::Delete, Profile::Delete, Profile::BigName, Profile::Idle, Profile::Idle, Profile::Align, Profile::Huge]);
        let nq = rng.usize(1, 4);
        let nops = match profile {
            Profile::Dense => rng.usize(20, 80),
            Profile::Huge => rng.usize(4, 12),
            _ => rng.usize(8, 40),
        };
        let live_dir = ctx.scratch.sub("c09-live");
        let key = parts[2] ^ parts[1].rotate_left(32);
        let run = match live_run(&live_dir, Policy::AlwaysFlush, key, &parts, profile, nq, nops, |c| {
            c.restart_pm = 30;
            c.bad_pm = 20;
            c.persist_pm = 5;
        }) {
            Ok(r) => r,
            Err(e) => {
                acc.inconclusive(format!("live run failed: {}", e));
                return;
            }
        };
        crate::util::clear_dir(&live_dir);
        let img = match final_image(&run) {
            Ok(i) => i,
            Err(u) => {
                acc.inconclusive(format!("unmodelled file-system call: {}", u));
                return;
            }
        };
        let final_state = run.states.last().unwrap().clone();
        // which call wrote each byte range: (file, start, end, call id)
        let wins = windows(&run.events);
        let mut ranges: Vec<(String, u64, u64, u64)> = Vec::new();
        for w in &wins {
            for i in w.begin + 1..w.end {
                if let Ev::Write { name, off, data, .. } = &run.events[i] {
                    if !data.is_empty() {
                        ranges.push((name.clone(), *off, *off + data.len() as u64, w.id));
                    }
                }
            }
        }
        let call_of = |file: &str, off: usize| -> Option<u64> {
            // the LAST write covering the offset wins (a file cannot be rewritten in this
            // code base, but stay faithful to the image)
            ranges.iter().rev().find(|(n, s, e, _)| n == file && (off as u64) >= *s && (off as u64) < *e).map(|x| x.3)
        };
        let frames = all_frames(&img);
        // self-validation of the layout parser
        let written: u64 = ranges.iter().filter(|r| img.files.contains_key(&r.0)).map(|r| r.2 - r.1).sum();
        let framed: u64 = frames.iter().map(|(_, f)| (HDR + f.len) as u64).sum();
        let all_ok = frames.iter().all(|(_, f)| f.crc_ok);
        if !all_ok || framed > written {
            acc.inconclusive("layout self-validation failed: the written bytes do not tile into checksum-valid frames".to_string());
            return;
        }
        // which call wrote each retained record (position -> call id), per queue
        let mut writer: HashMap<(String, u64), u64> = HashMap::new();
        for (k, (op, out)) in run.ops.iter().zip(run.outcomes.iter()).enumerate() {
            if let (Op::Append { q, lens, .. }, Outcome::Appended { last: Some(last), .. }) = (op, out) {
                let first = last + 1 - lens.len() as u64;
                for i in 0..lens.len() as u64 {
                    writer.insert((q.clone(), first + i), k as u64);
                }
            }
        }
        acc.count(&format!("histories_profile_{}", profile.name()));
        let dir = ctx.scratch.sub("c09-rec");
        img.materialize(&dir);
        let nframes = frames.len();
        // thorough: all frames; quick: all frames up to a cap, sampled beyond it
        let cap = ctx.tier.pick(400, 4000);
        let step = if nframes > cap { nframes as f64 / cap as f64 } else { 1.0 };
        let mut fi = 0f64;
        let mut sampled = false;
        while (fi as usize) < nframes {
            let idx = fi as usize;
            fi += step;
            let (fname, f) = &frames[idx];
            let Some(call) = call_of(fname, f.off) else {
                acc.inconclusive("a frame could not be attributed to a call window".to_string());
                return;
            };
            let orig = img.files[fname].clone();
            for alt in 0..4 {
                let mut d = orig.clone();
                let what = match alt {
                    0 if f.len > 0 => {
                        let o = f.payload_off() + rng.usize(0, f.len - 1);
                        d[o] ^= 1u8 << rng.below(8);
                        "payload-bitflip"
                    }
                    1 if f.len > 0 => {
                        let o = f.payload_off();
                        rng.fill(&mut d[o..o + f.len]);
                        "payload-garbage"
                    }
                    2 => {
                        let o = f.off + rng.usize(0, 3);
                        d[o] ^= 1u8 << rng.below(8);
                        "crc-bitflip"
                    }
                    3 => {
                        rng.fill(&mut d[f.off..f.off + 4]);
                        "crc-garbage"
                    }
                    _ => continue,
                };
                if d == orig {
                    continue;
                }
                std::fs::write(dir.join(fname), &d).expect("write damaged file");
                let mut resumed = 0u64;
                let r = catch_unwind(AssertUnwindSafe(|| {
                    mrecordlog::MultiRecordLog::open(&dir).map(|log| {
                        // the survivors must also reach a consumer that resumes behind a position
                        // next to the hole the dropped entry left
                        Snapshot::take(&log).and_then(|s| s.resume_reads(&log).map(|n| { resumed = n; s }))
                    })
                }));
                // recovery may GC / write: restore the whole image afterwards
                acc.eval();
                acc.count("damaged_images_opened");
                acc.add("resuming_reads_compared_on_recovered_logs", resumed);
                acc.count(&format!("alteration_{}", what));
                acc.count(&format!("frames_damaged_type_{}", ["?", "full", "first", "middle", "last"][f.ftype as usize]));
                let opk = if call == u64::MAX { "initial-open" } else { run.ops[call as usize].kind() };
                if !opk.starts_with("append") {
                    acc.count("frames_of_control_entries_damaged");
                }
                if idx + 1 < nframes {
                    acc.distinct(hash_combine(hash_combine(case, idx as u64), alt));
                }
                let detail = |obs: serde_json::Value| {
                    json!({
                        "history": run.history_json(run.ops.len()), "image": img.describe(),
                        "damaged_frame": {"file": fname, "offset": f.off, "payload_len": f.len, "frame_type": f.ftype, "written_by_call": call as i64, "call_kind": opk, "alteration": what},
                        "observation": obs,
                    })
                };
                let snap = match r {
                    Err(_) => {
                        acc.violation(format!("C09/open-panicked/{}/{}", opk, what), case, detail(json!({"open": "panicked"})));
                        img.materialize(&dir);
                        return;
                    }
                    Ok(Err(e)) => {
                        acc.violation(format!("C09/open-failed/{}/{}/{:?}", opk, what, crate::ops::open_err_kind(&e)), case, detail(json!({"open": format!("{:?}", e)})));
                        img.materialize(&dir);
                        return;
                    }
                    Ok(Ok(Err(e))) => {
                        acc.violation(format!("C09/read-api-inconsistent/{}/{}", opk, what), case, detail(json!({"error": e})));
                        img.materialize(&dir);
                        return;
                    }
                    Ok(Ok(Ok(s))) => s,
                };
                // every retained record not written by the damaged call must be intact
                let mut lost_of_hit_call = 0u64;
                for (q, qs) in &final_state.queues {
                    let got = snap.queues.get(q);
                    for r in &qs.recs {
                        let w = writer.get(&(q.clone(), r.pos)).copied();
                        let present = got.map(|g| g.recs.binary_search_by_key(&r.pos, |x| x.pos).ok().map(|i| g.recs[i] == *r).unwrap_or(false)).unwrap_or(false);
                        if present {
                            acc.count("retained_records_verified_intact");
                            continue;
                        }
                        if w == Some(call) {
                            lost_of_hit_call += 1;
                            continue;
                        }
                        acc.violation(
                            format!("C09/collateral-loss/{}/{}/frame-type-{}", opk, what, f.ftype),
                            case,
                            detail(json!({
                                "lost_record": {"queue": short(q), "position": r.pos, "written_by_call": w},
                                "queue_missing_entirely": got.is_none(),
                                "expected_state": final_state.to_json(), "recovered": snap.to_json(),
                            })),
                        );
                        img.materialize(&dir);
                        return;
                    }
                }
                if lost_of_hit_call > 0 {
                    acc.count("images_where_damage_cost_retained_records_of_the_hit_call_only");
                } else if snap == final_state {
                    acc.count("images_where_damage_cost_nothing_observable");
                } else {
                    acc.count("images_where_damage_left_extra_state_(unapplied_truncate_or_delete)");
                }
                // second-order: the damaged frame stays in the file. Continue on the recovered log
                // (a new queue, one more record), shut down cleanly and open again: the statement
                // applies to that open too - the new entries were not hit, nor was anything else
                if rng.chance(1, 6) {
                    let cont = catch_unwind(AssertUnwindSafe(|| -> Result<Option<(String, serde_json::Value)>, String> {
                        let mut log = mrecordlog::MultiRecordLog::open(&dir).map_err(|e| format!("second open failed: {:?}", e))?;
                        let newq = "c09-continuation\u{2}";
                        let created = log.create_queue(newq).is_ok();
                        let mut appended: Option<(String, u64)> = None;
                        if let Some(q0) = snap.queues.keys().next() {
                            if let Ok(o) = log.append_record(q0, None, &b"continued after the damage"[..]) {
                                appended = o.last_position.map(|p| (q0.clone(), p));
                            }
                        }
                        drop(log);
                        let log = mrecordlog::MultiRecordLog::open(&dir).map_err(|e| format!("open after the continuation failed: {:?}", e))?;
                        let s2 = Snapshot::take(&log).map_err(|e| format!("read accessors after the continuation: {}", e))?;
                        if created && !s2.queues.contains_key(newq) {
                            return Ok(Some(("queue-created-after-recovery-lost".into(), json!({"recovered_after_continuation": s2.to_json()}))));
                        }
                        if let Some((q0, p)) = &appended {
                            let ok = s2.queues.get(q0).map(|g| g.recs.iter().any(|r| r.pos == *p && r.len == 26)).unwrap_or(false);
                            if !ok {
                                return Ok(Some(("record-appended-after-recovery-lost".into(), json!({"queue": short(q0), "position": p, "recovered_after_continuation": s2.to_json()}))));
                            }
                        }
                        for (q, qs) in &snap.queues {
                            for r in &qs.recs {
                                let ok = s2.queues.get(q).map(|g| g.recs.binary_search_by_key(&r.pos, |x| x.pos).ok().map(|i| g.recs[i] == *r).unwrap_or(false)).unwrap_or(false);
                                if !ok {
                                    return Ok(Some(("record-lost-at-the-open-after-the-continuation".into(), json!({"queue": short(q), "position": r.pos}))));
                                }
                            }
                        }
                        Ok(None)
                    }));
                    acc.eval();
                    acc.count("continuations_on_a_log_recovered_from_a_damaged_image");
                    match cont {
                        Ok(Ok(None)) => {}
                        Ok(Ok(Some((class, extra)))) => {
                            acc.violation(format!("C09/continuation/{}/{}", class, what), case, detail(extra));
                            img.materialize(&dir);
                            return;
                        }
                        Ok(Err(e)) => {
                            acc.violation(format!("C09/continuation/open-failed/{}", what), case, detail(json!({"error": e})));
                            img.materialize(&dir);
                            return;
                        }
                        Err(_) => {
                            acc.count("continuation_panicked_(C10_territory)");
                        }
                    }
                }
                if !sampled {
                    sampled = true;
                    acc.sample(|| json!({"case": case, "history": run.history_json(8), "frames_in_image": nframes, "example_damage": {"file": fname, "offset": f.off, "payload_len": f.len, "frame_type": f.ftype, "call_kind": opk, "alteration": what}}));
                }
                img.materialize(&dir);
            }
        }
    }
}
