//! C10 -- open never panics, hangs or allocates without bound on any directory content;
//! the read accessors of a returned log do not panic.  DESIGN.md 4/C10.

use std::ops::Bound;

use serde_json::{json, Value};

use super::c08::final_image;
use super::crash::live_run;
use crate::damage::{all_frames, crafted_stream, inplace_damage, structural_damage};
use crate::gen::Profile;
use crate::image::Image;
use crate::ops::Policy;
use crate::runner::{Acc, Ctx, Monitor, Tier, DEV_BASE};
use crate::sacrifice::{in_child, ChildEnd, EXIT_ALLOC_CAP, EXIT_BUDGET, EXIT_PANIC};
use crate::shim;
use crate::util::{hash_combine, hash_str, Rng};

pub struct C10;

/// Child body: open + every read accessor.  Returns a one-line description.
fn child_open_and_read(dir: &std::path::Path, budget: i64, alloc_cap: usize) -> Vec<u8> {
    shim::reset_all();
    shim::set_root(dir);
    shim::budget(budget);
    crate::capalloc::set_limit(crate::capalloc::live() + alloc_cap);
    shim::pause(false);
    let r = mrecordlog::MultiRecordLog::open(dir);
    shim::pause(true);
    shim::budget(-1);
    let out = match r {
        Ok(log) => {
            let mut nrec = 0u64;
            let names: Vec<String> = log.list_queues().map(|s| s.to_string()).collect();
            for n in &names {
                let _ = log.queue_exists(n);
                let lp = log.last_position(n).ok().flatten();
                let _ = log.last_record(n).map(|r| r.map(|r| r.payload.len()));
                if let Ok(it) = log.range(n, ..) {
                    for r in it {
                        nrec += 1;
                        std::hint::black_box(r.payload.len());
                    }
                }
                let probes = [0u64, 1, lp.unwrap_or(0), lp.unwrap_or(0).wrapping_add(1), u64::MAX, u64::MAX - 1, 1 << 63];
                for a in probes {
                    for b in probes {
                        for (lo, hi) in [
                            (Bound::Included(a), Bound::Included(b)),
                            (Bound::Excluded(a), Bound::Excluded(b)),
                            (Bound::Included(a), Bound::Unbounded),
                            (Bound::Excluded(a), Bound::Unbounded),
                            (Bound::Unbounded, Bound::Included(b)),
                            (Bound::Unbounded, Bound::Excluded(b)),
                        ] {
                            if let Ok(it) = log.range(n, (lo, hi)) {
                                for r in it {
                                    std::hint::black_box(r.position);
                                }
                            }
                        }
                    }
                }
            }
            let s = log.summary();
            std::hint::black_box(s.queues.len());
            let ru = log.resource_usage();
            std::hint::black_box(ru.memory_used_bytes);
            format!("OK queues={} records={}", names.len(), nrec)
        }
        Err(mrecordlog::error::ReadRecordError::IoError(e)) => format!("ERR io {:?}", e.kind()),
        Err(mrecordlog::error::ReadRecordError::Corruption) => "ERR corruption".to_string(),
    };
    crate::capalloc::set_limit(0);
    out.into_bytes()
}

impl Monitor for C10 {
    fn id(&self) -> &'static str {
        "C10"
    }
    fn level(&self) -> &'static str {
        "fault_enumeration"
    }
    fn num_cases(&self, tier: Tier) -> u64 {
        tier.pick(640, 16_000)
    }
    fn num_dev_cases(&self, tier: Tier) -> u64 {
        tier.pick(240, 6_000)
    }
    fn floors(&self, tier: Tier) -> Vec<(&'static str, u64)> {
        vec![
            ("hostile_images_opened", tier.pick(40_000, 1_000_000)),
            ("images_generator_structural", tier.pick(8_000, 200_000)),
            ("images_generator_inplace", tier.pick(8_000, 200_000)),
            ("images_generator_crafted_crc_valid", tier.pick(8_000, 200_000)),
            ("images_generator_random_blocks", tier.pick(3_000, 80_000)),
            ("images_opened_by_dev_profile_build", tier.pick(8_000, 200_000)),
            ("outcome_ok", tier.pick(5_000, 100_000)),
            ("outcome_err_corruption", tier.pick(500, 10_000)),
        ]
    }
    fn rule(&self) -> String {
        "case = one valid multi-file WAL image from a generated history, from which 100 hostile directory contents are derived by four generators: (a) 1..4 structural operations (truncate/remove/duplicate/swap/renumber files and blocks, append garbage, stray files, sub-directories and symlinks named like WAL files), (b) 1..8 in-place overwrites as in C08, (c) CRC-valid crafted streams with hostile entry fields (positions 0/2^63/u64::MAX, invalid UTF-8, lying length fields, impossible frame-type sequences), (d) uniformly random blocks; evaluation = one open() + all read accessors in a forked sacrificial child under a logical traced-call budget, a CPU limit and an allocation cap, in release AND dev-profile (overflow-checks, debug-assertions) builds; distinct_nontrivial = distinct (generator, damage description) images".into()
    }
    fn assumptions(&self) -> Vec<String> {
        vec![
            "hang = traced-call budget 10x(blocks+files)+1000 exhausted or 20 s CPU consumed by a recovery that normally needs < 10 ms; unbounded allocation = a request or live total above 64 MiB + 8x image size".into(),
            "a wall-clock timeout of the child is inconclusive, never a violation".into(),
        ]
    }
    fn run_case(&self, ctx: &Ctx, case: u64, acc: &mut Acc) {
        let parts = ctx.case_seed(case);
        let mut rng = Rng::from_parts(&parts);
        let profile = *rng.pick(&[Profile::Mixed, Profile::Gc, Profile::Gc, Profile::Dense, Profile::Delete, Profile::BigName, Profile::Idle, Profile::Huge]);
        let nq = rng.usize(1, 4);
        let nops = rng.usize(4, 40);
        let live_dir = ctx.scratch.sub("c10-live");
        let key = parts[2] ^ parts[1].rotate_left(32);
        let run = match live_run(&live_dir, Policy::AlwaysFlush, key, &parts, profile, nq, nops, |c| {
            c.restart_pm = 20;
            c.bad_pm = 10;
        }) {
            Ok(r) => r,
            Err(e) => {
                acc.inconclusive(format!("live run failed: {}", e));
                return;
            }
        };
        crate::util::clear_dir(&live_dir);
        let base = match final_image(&run) {
            Ok(i) => i,
            Err(u) => {
                acc.inconclusive(format!("unmodelled file-system call: {}", u));
                return;
            }
        };
        let frames = all_frames(&base);
        let dir = ctx.scratch.sub("c10-rec");
        let dev = case >= DEV_BASE;
        let file_size = run.file_size as usize;
        let rounds = 100;
        for round in 0..rounds {
            let (img, gen_name, desc): (Image, &str, Value) = match rng.below(10) {
                0..=2 => {
                    let mut im = base.clone();
                    let n = rng.usize(1, 4);
                    let mut ds = Vec::new();
                    for _ in 0..n {
                        if let Some(d) = structural_damage(&mut im, &mut rng) {
                            ds.push(d);
                        }
                    }
                    if rng.chance(1, 4) {
                        if let Some(d) = inplace_damage(&mut im, &frames, &mut rng) {
                            ds.push(d);
                        }
                    }
                    (im, "structural", Value::Array(ds))
                }
                3..=5 => {
                    let mut im = base.clone();
                    let n = rng.usize(1, 8);
                    let mut ds = Vec::new();
                    for _ in 0..n {
                        if let Some(d) = inplace_damage(&mut im, &frames, &mut rng) {
                            ds.push(d);
                        }
                    }
                    (im, "inplace", Value::Array(ds))
                }
                6..=8 => {
                    let (files, d) = crafted_stream(&mut rng, file_size.max(32768));
                    let mut im = Image::default();
                    let start = if rng.chance(1, 4) { rng.below(1 << 40) } else { 0 };
                    // optionally append the crafted stream behind the valid image
                    if rng.chance(1, 3) {
                        im = base.clone();
                        let last = im.files.keys().filter_map(|n| n.get(4..).and_then(|x| x.parse::<u64>().ok())).max().unwrap_or(0);
                        for (i, f) in files.into_iter().enumerate() {
                            im.files.insert(format!("wal-{:020}", last.saturating_add(1 + i as u64)), f);
                        }
                    } else {
                        for (i, f) in files.into_iter().enumerate() {
                            im.files.insert(format!("wal-{:020}", start + i as u64), f);
                        }
                    }
                    (im, "crafted_crc_valid", d)
                }
                _ => {
                    let mut im = Image::default();
                    let nf = rng.usize(1, 3);
                    for i in 0..nf {
                        let nb = rng.usize(1, 4);
                        let mut d = vec![0u8; nb * 32768];
                        rng.fill(&mut d);
                        // sprinkle plausible headers so that some frames parse
                        if rng.chance(1, 2) {
                            let mut o = 0;
                            while o + 7 < d.len() {
                                let l = rng.usize(0, 2000);
                                d[o + 4..o + 6].copy_from_slice(&(l as u16).to_le_bytes());
                                d[o + 6] = rng.range(1, 4) as u8;
                                o += 7 + l;
                            }
                        }
                        im.files.insert(format!("wal-{:020}", i), d);
                    }
                    (im, "random_blocks", json!({"files": nf}))
                }
            };
            img.materialize(&dir);
            let blocks: usize = img.files.values().map(|d| d.len() / 32768 + 1).sum();
            let budget = 10 * (blocks + img.files.len() + img.extras.len()) as i64 + 1000;
            let cap = (64usize << 20) + 8 * img.total_bytes();
            let end = in_child(20, 900, || child_open_and_read(&dir, budget, cap));
            acc.eval();
            acc.count("hostile_images_opened");
            acc.count(&format!("images_generator_{}", gen_name));
            if dev {
                acc.count("images_opened_by_dev_profile_build");
            }
            acc.distinct(hash_combine(hash_combine(case, round), hash_str(&desc.to_string())));
            let build = if dev { "dev-profile" } else { "release" };
            let detail = |obs: Value| json!({"base_history": run.history_json(run.ops.len().min(30)), "generator": gen_name, "damage": desc, "image": img.describe(), "extras": format!("{:?}", img.extras), "build": build, "observation": obs});
            match &end {
                ChildEnd::Exited(0, out) => {
                    let s = String::from_utf8_lossy(out);
                    if s.starts_with("OK") {
                        acc.count("outcome_ok");
                    } else if s.starts_with("ERR corruption") {
                        acc.count("outcome_err_corruption");
                    } else {
                        acc.count("outcome_err_io");
                    }
                }
                ChildEnd::Exited(c, out) if *c == EXIT_PANIC => {
                    let msg = String::from_utf8_lossy(out).to_string();
                    let short: String = msg.chars().take(80).collect();
                    acc.violation(format!("C10/panic/{}/{}/{}", build, gen_name, short), case, detail(json!({"panic": msg})));
                }
                ChildEnd::Exited(c, _) if *c == EXIT_BUDGET => {
                    acc.violation(format!("C10/hang-traced-call-budget-exhausted/{}/{}", build, gen_name), case, detail(json!({"budget": budget})));
                }
                ChildEnd::Exited(c, _) if *c == EXIT_ALLOC_CAP => {
                    acc.violation(format!("C10/unbounded-allocation/{}/{}", build, gen_name), case, detail(json!({"cap_bytes": cap})));
                }
                ChildEnd::Blocked => {
                    acc.violation(format!("C10/hang-blocked-in-a-system-call/{}/{}", build, gen_name), case, detail(json!({"observation": "the child slept in a system call without any CPU progress for 12 s"})));
                }
                ChildEnd::Signaled(sig) if *sig == libc::SIGXCPU => {
                    acc.violation(format!("C10/hang-cpu-limit/{}/{}", build, gen_name), case, detail(json!({"signal": "SIGXCPU", "cpu_limit_s": 20})));
                    // every such witness costs 20 s of CPU: two per shard are enough
                    acc.count("hangs_at_the_cpu_limit");
                    if acc.counters.get("hangs_at_the_cpu_limit").copied().unwrap_or(0) >= 2 {
                        acc.abort_shard = true;
                        return;
                    }
                }
                ChildEnd::Signaled(sig) if *sig == libc::SIGABRT || *sig == libc::SIGSEGV || *sig == libc::SIGBUS || *sig == libc::SIGILL => {
                    acc.violation(format!("C10/abort-signal-{}/{}/{}", sig, build, gen_name), case, detail(json!({"signal": sig})));
                }
                other => {
                    acc.inconclusive(format!("sacrificial child ended unexpectedly: {:?}", other));
                }
            }
            if round == 0 {
                acc.sample(|| json!({"case": case, "generator": gen_name, "damage": desc, "image": img.describe(), "child": format!("{:?}", end).chars().take(120).collect::<String>()}));
            }
            if acc.violations.len() >= 60 {
                return;
            }
        }
    }
}
