//! C11 -- open terminates and reports I/O failures during recovery.
//! Exhaustive (per image) injection of an I/O error at every opendir / readdir / open /
//! read call made by recovery, in a sacrificial child with a logical call budget.
//! DESIGN.md 4/C11.

use serde_json::json;

use super::crash::live_run;
use crate::gen::Profile;
use crate::image::{Builder, Image};
use crate::ops::{Policy, Snapshot};
use crate::runner::{Acc, Ctx, Monitor, Tier};
use crate::sacrifice::{in_child, ChildEnd, EXIT_BUDGET, EXIT_PANIC};
use crate::shim::{self, CLASS_NAMES, CL_LSEEK, CL_OPENDIR, CL_OPEN_FILE, CL_READ, CL_READDIR, NCLASS};
use crate::util::{hash_combine, Rng};

pub struct C11;

// lseek: the positioning done as part of opening a WAL file / handing the cursor to the writer
const CLASSES: [usize; 6] = [CL_OPENDIR, CL_READDIR, CL_OPEN_FILE, CL_READ, CL_LSEEK, crate::shim::CL_STAT];
/// Set by the parent before it forks the children of one image: report every directory entry
/// with d_type = DT_UNKNOWN, so that listing has to stat each entry (legal file-system behaviour).
static DT_UNKNOWN: std::sync::atomic::AtomicBool = std::sync::atomic::AtomicBool::new(false);
/// Every image uses EIO, ENOENT and a rotating choice of four more from this pool.
const ERRNO_POOL: [(i32, &str); 8] = [
    (libc::EISDIR, "EISDIR"),
    (libc::ENOTDIR, "ENOTDIR"),
    (libc::ELOOP, "ELOOP"),
    (libc::EINVAL, "EINVAL"),
    (libc::EPERM, "EPERM"),
    (libc::EFBIG, "EFBIG"),
    (libc::EOVERFLOW, "EOVERFLOW"),
    (libc::ENXIO, "ENXIO"),
];
const ERRNOS: [(i32, &str); 10] = [
    (libc::EIO, "EIO"),
    (libc::EACCES, "EACCES"),
    (libc::ENOMEM, "ENOMEM"),
    (libc::EMFILE, "EMFILE"),
    (libc::ENOENT, "ENOENT"),
    (libc::ESTALE, "ESTALE"),
    // kinds that "look transient" or "look like end of file" to a careless caller
    (libc::EAGAIN, "EAGAIN"),
    (libc::ETIMEDOUT, "ETIMEDOUT"),
    (libc::EBUSY, "EBUSY"),
    (libc::ENOSPC, "ENOSPC"),
];

/// Child body: open the directory under the armed fault and describe the result.
fn child_open(dir: &std::path::Path, key: u64, fault: Option<(usize, i64, i32, bool)>, budget: i64) -> Vec<u8> {
    child_open_mode(dir, key, fault, false, budget)
}

fn child_open_mode(dir: &std::path::Path, _key: u64, fault: Option<(usize, i64, i32, bool)>, short_then_error: bool, budget: i64) -> Vec<u8> {
    shim::reset_all();
    shim::set_root(dir);
    shim::dt_unknown(DT_UNKNOWN.load(std::sync::atomic::Ordering::Relaxed));
    if let Some((cls, nth, errno, persistent)) = fault {
        if short_then_error {
            shim::fault_short_read_then_error(nth, errno);
        } else {
            shim::fault(cls, nth, errno, persistent);
        }
    }
    if budget > 0 {
        shim::budget(budget);
    }
    shim::pause(false);
    let r = mrecordlog::MultiRecordLog::open(dir);
    shim::pause(true);
    shim::budget(-1);
    shim::dt_unknown(false);
    let counts = shim::counts();
    let delivered = shim::delivered();
    let mut out = String::new();
    match r {
        Ok(log) => {
            let d = Snapshot::take(&log).map(|s| s.digest()).unwrap_or(0);
            out.push_str(&format!("OK {}", d));
        }
        Err(mrecordlog::error::ReadRecordError::IoError(e)) => out.push_str(&format!("IO {:?}", e.kind())),
        Err(mrecordlog::error::ReadRecordError::Corruption) => out.push_str("CORRUPTION"),
    }
    out.push('\n');
    for c in counts.iter() {
        out.push_str(&format!("{} ", c));
    }
    out.push_str(&format!("\ndelivered={}", delivered));
    out.into_bytes()
}

impl Monitor for C11 {
    fn id(&self) -> &'static str {
        "C11"
    }
    fn level(&self) -> &'static str {
        "fault_enumeration"
    }
    fn num_cases(&self, tier: Tier) -> u64 {
        tier.pick(120, 3_000)
    }
    fn floors(&self, tier: Tier) -> Vec<(&'static str, u64)> {
        vec![
            ("injections", tier.pick(20_000, 400_000)),
            ("injections_class_open_file", tier.pick(1_000, 20_000)),
            ("injections_class_read", tier.pick(5_000, 100_000)),
            ("injections_class_readdir", tier.pick(1_000, 20_000)),
            ("injections_class_opendir", tier.pick(500, 10_000)),
            ("injections_class_stat", tier.pick(500, 10_000)),
            ("images_with_a_header_damaged_frame", tier.pick(10, 300)),
            ("injections_short_read_then_error", tier.pick(1_000, 20_000)),
            ("injections_into_non_first_wal_file", tier.pick(2_000, 40_000)),
            ("images_with_3_or_more_files", tier.pick(15, 400)),
        ]
    }
    fn rule(&self) -> String {
        "case = one WAL image (1..8 files) produced by a generated history; per image the recovery's traced opendir/readdir/open/read/lseek/stat-family calls are counted (every other image is listed with d_type = DT_UNKNOWN, so that the listing has to stat each entry) in a fault-free child, then EVERY n-th call of every class is failed once and from-then-on with each of 10 errnos (EIO, EACCES, ENOENT, ESTALE, EAGAIN, ETIMEDOUT, EBUSY, ENOSPC + two rotating through EISDIR, ENOTDIR, ELOOP, EINVAL, EPERM, EFBIG, EOVERFLOW, ENXIO, ENOMEM, EMFILE) in a fresh forked child (exhaustive per image over injection points); evaluation = one injected recovery; plus a bad-sector model (every read of recovery served short, the read that follows failing); one image in three also carries one frame header with an invalid type byte (so that faults also hit recovery while it is skipping a damaged block); oracle: the child must return Err(IoError) before a logical budget of 10x the fault-free traced calls + 1000; distinct_nontrivial = distinct (image, class, n, errno, mode) injections that hit a call after the first WAL file was opened".into()
    }
    fn assumptions(&self) -> Vec<String> {
        vec![
            "faults are injected at the libc boundary by the LD_PRELOAD shim (the real call is not made); EINTR is excluded because std retries it by contract".into(),
            "hang verdict = logical budget on traced calls (deterministic), CPU limit as a backstop; wall-clock only yields inconclusive".into(),
        ]
    }
    fn exhaustive(&self, _tier: Tier) -> bool {
        false
    }
    fn run_case(&self, ctx: &Ctx, case: u64, acc: &mut Acc) {
        let parts = ctx.case_seed(case);
        let mut rng = Rng::from_parts(&parts);
        let profile = *rng.pick(&[Profile::Gc, Profile::Gc, Profile::Mixed, Profile::Idle, Profile::Huge, Profile::Dense]);
        let nq = rng.usize(1, 3);
        let nops = rng.usize(3, 30);
        let live_dir = ctx.scratch.sub("c11-live");
        let key = parts[2] ^ parts[1].rotate_left(32);
        let run = match live_run(&live_dir, Policy::AlwaysFlush, key, &parts, profile, nq, nops, |c| {
            c.restart_pm = 10;
            c.bad_pm = 10;
        }) {
            Ok(r) => r,
            Err(e) => {
                acc.inconclusive(format!("live run failed: {}", e));
                return;
            }
        };
        crate::util::clear_dir(&live_dir);
        let mut b = Builder::new(Image::default());
        for e in &run.events {
            b.apply(e);
        }
        if !b.unmodelled.is_empty() {
            acc.inconclusive(format!("unmodelled file-system call: {}", b.unmodelled[0]));
            return;
        }
        let mut img = b.cur.clone();
        // one image in three carries a structurally damaged frame header (invalid type byte) in a
        // block that is not the last one holding data: recovery then has a "skip the rest of
        // this block" state pending while it loads the next block - faults must still surface
        if case % 3 == 2 {
            let frames = crate::damage::all_frames(&img);
            if let Some((lname, lf)) = frames.last().cloned() {
                let last_block = lf.off / 32768;
                let candidates: Vec<&(String, crate::layout::Frame)> = frames.iter().filter(|(n, f)| *n != lname || f.off / 32768 != last_block).collect();
                if !candidates.is_empty() {
                    let (n, f) = (*rng.pick(&candidates)).clone();
                    img.files.get_mut(&n).unwrap()[f.off + 6] = 0xEE;
                    acc.count("images_with_a_header_damaged_frame");
                }
            }
        }
        let nfiles = img.files.len();
        acc.count("images");
        acc.count(&format!("images_with_{}_files", nfiles.min(9)));
        if nfiles >= 3 {
            acc.count("images_with_3_or_more_files");
        }
        let dir = ctx.scratch.sub("c11-rec");

        // every other image is listed by a file system that reports DT_UNKNOWN
        let dt_unknown = case % 2 == 1;
        DT_UNKNOWN.store(dt_unknown, std::sync::atomic::Ordering::Relaxed);
        if dt_unknown {
            acc.count("images_listed_with_d_type_unknown");
        }
        // fault-free reference run
        img.materialize(&dir);
        let base = in_child(60, 600, || child_open(&dir, key, None, -1));
        let (base_digest, counts) = match &base {
            ChildEnd::Exited(0, out) => {
                let s = String::from_utf8_lossy(out);
                let mut lines = s.lines();
                let first = lines.next().unwrap_or("");
                let cnt: Vec<i64> = lines.next().unwrap_or("").split_whitespace().filter_map(|x| x.parse().ok()).collect();
                if !first.starts_with("OK ") || cnt.len() != NCLASS {
                    acc.inconclusive(format!("fault-free recovery of a clean image did not succeed: {}", first));
                    return;
                }
                (first[3..].to_string(), cnt)
            }
            other => {
                acc.inconclusive(format!("fault-free reference child ended with {:?}", other));
                return;
            }
        };
        let total: i64 = counts.iter().sum();
        let budget = 10 * total + 1000;
        // index of the first read that belongs to a non-first file: reads are 1 (first
        // block) + blocks; approximate by the number of blocks of the first file
        let first_file_blocks = img.files.values().next().map(|d| d.len() / 32768).unwrap_or(0) as i64;
        let mut sampled = false;
        // errnos for this image: the ten standard ones, two of which are swapped for members
        // of the pool (rotating with the case number)
        let mut errnos: Vec<(i32, &str)> = ERRNOS.to_vec();
        errnos[2] = ERRNO_POOL[(case as usize) % ERRNO_POOL.len()];
        errnos[3] = ERRNO_POOL[(case as usize / ERRNO_POOL.len() + 3) % ERRNO_POOL.len()];
        for &cls in CLASSES.iter() {
            let n_calls = counts[cls];
            for nth in 1..=n_calls {
                for &(errno, ename) in errnos.iter() {
                    for persistent in [false, true] {
                        img.materialize(&dir);
                        let end = in_child(60, 600, || child_open(&dir, key, Some((cls, nth, errno, persistent)), budget));
                        acc.eval();
                        acc.count("injections");
                        acc.count(&format!("injections_class_{}", CLASS_NAMES[cls]));
                        acc.count(&format!("injections_mode_{}", if persistent { "from_then_on" } else { "once" }));
                        let non_first = (cls == CL_OPEN_FILE && nth > 1) || (cls == CL_READ && nth > first_file_blocks);
                        if non_first {
                            acc.count("injections_into_non_first_wal_file");
                            acc.distinct(hash_combine(hash_combine(case, (cls as u64) << 32 | nth as u64), (errno as u64) << 1 | persistent as u64));
                        }
                        let mode = if persistent { "from-then-on" } else { "once" };
                        let spec = json!({"class": CLASS_NAMES[cls], "nth_call_of_class": nth, "calls_of_class_fault_free": n_calls, "errno": ename, "mode": mode});
                        let detail = |obs: serde_json::Value| {
                            json!({
                                "history": run.history_json(run.ops.len()), "image": img.describe(), "injection": spec,
                                "fault_free_traced_calls": total, "budget": budget, "observation": obs,
                            })
                        };
                        let phase = if non_first { "later-file" } else { "first-file-or-listing" };
                        match &end {
                            ChildEnd::Exited(0, out) if String::from_utf8_lossy(out).contains("delivered=0") => {
                                acc.count("injections_never_delivered_(call_not_reached)");
                            }
                            ChildEnd::Exited(0, out) => {
                                let s = String::from_utf8_lossy(out).to_string();
                                let first = s.lines().next().unwrap_or("").to_string();
                                if first.starts_with("IO ") {
                                    acc.count("outcome_reported_io_error");
                                } else if first.starts_with("OK ") {
                                    let same = first[3..] == base_digest;
                                    acc.violation(
                                        format!("C11/io-error-swallowed-open-returned-Ok/{}/{}/{}/{}", CLASS_NAMES[cls], mode, phase, if same { "state-complete" } else { "state-partial" }),
                                        case,
                                        detail(json!({"open": "Ok", "state_equals_fault_free_state": same})),
                                    );
                                } else {
                                    acc.violation(format!("C11/io-error-reported-as-corruption/{}/{}/{}", CLASS_NAMES[cls], mode, phase), case, detail(json!({"open": first})));
                                }
                            }
                            ChildEnd::Exited(c, _) if *c == EXIT_BUDGET => {
                                acc.violation(
                                    format!("C11/retries-forever-budget-exhausted/{}/{}/{}", CLASS_NAMES[cls], mode, phase),
                                    case,
                                    detail(json!({"open": "did not return within the logical budget of traced calls"})),
                                );
                            }
                            ChildEnd::Exited(c, out) if *c == EXIT_PANIC => {
                                acc.violation(
                                    format!("C11/panic-instead-of-io-error/{}/{}/{}", CLASS_NAMES[cls], mode, phase),
                                    case,
                                    detail(json!({"panic": String::from_utf8_lossy(out)})),
                                );
                            }
                            ChildEnd::Blocked => {
                                acc.violation(format!("C11/blocked-in-a-system-call/{}/{}/{}", CLASS_NAMES[cls], mode, phase), case, detail(json!({"observation": "no CPU progress for 12 s"})));
                            }
                            ChildEnd::Signaled(sig) if *sig == libc::SIGXCPU || *sig == libc::SIGKILL => {
                                acc.violation(format!("C11/cpu-limit-exceeded/{}/{}/{}", CLASS_NAMES[cls], mode, phase), case, detail(json!({"signal": sig})));
                            }
                            other => {
                                acc.inconclusive(format!("injection child ended unexpectedly: {:?}", other));
                            }
                        }
                        if !sampled {
                            sampled = true;
                            acc.sample(|| json!({"case": case, "image": img.describe(), "fault_free_calls_by_class": CLASS_NAMES.iter().zip(counts.iter()).map(|(n, c)| format!("{}={}", n, c)).collect::<Vec<_>>(), "example_injection": spec, "history": run.history_json(10)}));
                        }
                        if acc.violations.len() >= 40 {
                            return;
                        }
                    }
                }
            }
        }
        // "bad sector" leg: every read of recovery served short, the following read failing
        let n_reads = counts[CL_READ];
        for nth in 1..=n_reads {
            for &(errno, ename) in ERRNOS.iter().take(3) {
                img.materialize(&dir);
                let end = in_child(60, 600, || child_open_mode(&dir, key, Some((CL_READ, nth, errno, false)), true, budget));
                acc.eval();
                acc.count("injections");
                acc.count("injections_short_read_then_error");
                let spec = json!({"class": "read", "nth_call_of_class": nth, "model": "nth read served short (half), next read fails", "errno": ename});
                let detail = |obs: serde_json::Value| json!({"history": run.history_json(run.ops.len()), "image": img.describe(), "injection": spec, "observation": obs});
                match &end {
                    ChildEnd::Exited(0, out) if String::from_utf8_lossy(out).contains("delivered=0") => {
                        // the shortened read hit the end of the file: no error was injected
                        acc.count("injections_never_delivered_(call_not_reached)");
                    }
                    ChildEnd::Exited(0, out) => {
                        let first = String::from_utf8_lossy(out).lines().next().unwrap_or("").to_string();
                        if first.starts_with("IO ") {
                            acc.count("outcome_reported_io_error");
                        } else if first.starts_with("OK ") {
                            let same = first[3..] == base_digest;
                            acc.violation(format!("C11/io-error-swallowed-open-returned-Ok/read/short-read-then-error/{}", if same { "state-complete" } else { "state-partial" }), case, detail(json!({"open": "Ok", "state_equals_fault_free_state": same})));
                        } else {
                            acc.violation("C11/io-error-reported-as-corruption/read/short-read-then-error", case, detail(json!({"open": first})));
                        }
                    }
                    ChildEnd::Exited(c, _) if *c == EXIT_BUDGET => {
                        acc.violation("C11/retries-forever-budget-exhausted/read/short-read-then-error", case, detail(json!({})));
                    }
                    ChildEnd::Exited(c, out) if *c == EXIT_PANIC => {
                        acc.violation("C11/panic-instead-of-io-error/read/short-read-then-error", case, detail(json!({"panic": String::from_utf8_lossy(out)})));
                    }
                    other => acc.inconclusive(format!("injection child ended unexpectedly: {:?}", other)),
                }
                if acc.violations.len() >= 40 {
                    return;
                }
            }
        }
    }
}
