//! C12 -- a batch append is all-or-nothing across crashes and damage.
//! Batch boundaries are known to the harness; no model and no snapshot equality.
//! DESIGN.md 4/C12.

use std::collections::BTreeMap;

use serde_json::{json, Value};

use super::c02::finish;
use super::c08::final_image;
use super::crash::*;
use crate::damage::all_frames;
use crate::image::{windows, Builder};
use crate::layout::{BLOCK, HDR};
use crate::ops::{payload_hash, short, Op, Outcome, Pid, Policy, Snapshot};
use crate::runner::{Acc, Ctx, Monitor, Tier};
use crate::shim::Ev;
use crate::util::{hash_combine, Rng};

pub struct C12;

struct Batch {
    op: usize,
    queue: String,
    /// incarnation of the queue (number of delete_queue calls on that name before this batch)
    inc: u32,
    first: u64,
    hashes: Vec<u64>,
}

/// Focused workload: 1..2 queues, batches of 1..64 records (>= 16 bytes each, so every
/// record identifies itself), aimed at block / file boundaries, truncations of the same
/// queue in between, and now and then a delete_queue + create_queue of the same name (the
/// positions start again at 0: records still identify their batch by content).
fn workload(rng: &mut Rng, file_size: u64) -> Vec<Op> {
    let nq = rng.usize(1, 2);
    let names: Vec<String> = (0..nq).map(|i| if rng.chance(1, 6) { format!("{}-{}", "n".repeat(rng.usize(200, 5000)), i) } else { format!("batchq{}", i) }).collect();
    let mut ops: Vec<Op> = names.iter().map(|q| Op::Create { q: q.clone() }).collect();
    let mut next: BTreeMap<String, u64> = names.iter().map(|q| (q.clone(), 0u64)).collect();
    let mut first_kept: BTreeMap<String, u64> = names.iter().map(|q| (q.clone(), 0u64)).collect();
    // one history in three opens with a batch whose first records fill the payload of its
    // First frame EXACTLY (the creates are the only entries before it, so the cursor is known):
    // an entry cut at that frame boundary still parses as a whole number of records
    if rng.chance(1, 3) {
        let q = rng.pick(&names).clone();
        let cursor: usize = names.iter().map(|n| 7 + 11 + n.len()).sum();
        if cursor + 7 + 11 + q.len() + 40 < BLOCK {
            let room = BLOCK - cursor - 7 - 11 - q.len();
            let k = *[1usize, 2, 3, 5, 10].iter().rev().find(|k| room % **k == 0 && room / **k >= 12 + 16).unwrap_or(&1);
            if room / k >= 12 + 16 && room % k == 0 {
                let mut lens = vec![room / k - 12; k];
                for _ in 0..rng.usize(1, 4) {
                    lens.push(rng.usize(16, 20_000));
                }
                let nrec = lens.len() as u64;
                next.insert(q.clone(), nrec);
                ops.push(Op::Append { q, pos: None, lens, chained: false });
            }
        }
    }
    let n = rng.usize(4, 14);
    for _ in 0..n {
        let q = rng.pick(&names).clone();
        if rng.chance(1, 4) && next[&q] > first_kept[&q] {
            // truncate inside / at the end of what the queue holds
            let lo = first_kept[&q];
            let hi = next[&q] - 1;
            let p = if rng.chance(1, 5) { hi } else { rng.range(lo, hi) };
            first_kept.insert(q.clone(), p + 1);
            ops.push(Op::Truncate { q, pos: p });
            continue;
        }
        if rng.chance(1, 12) {
            ops.push(Op::Restart);
            continue;
        }
        if rng.chance(1, 9) && next[&q] > 0 {
            // new incarnation of the queue: the next batches re-use positions of the old one
            ops.push(Op::Delete { q: q.clone() });
            ops.push(Op::Create { q: q.clone() });
            next.insert(q.clone(), 0);
            first_kept.insert(q.clone(), 0);
            continue;
        }
        // frame-commensurate batches: a frame payload is 32761 = 181 * 181 bytes, a serialized
        // record is 12 + len bytes; with 169-byte (or 32749-byte) records a batch that loses
        // exactly one full frame still parses as a whole number of records - the shape that
        // turns a reader slip into a batch with a HOLE rather than a dropped batch
        if rng.chance(1, 10) {
            let (n, l) = if rng.chance(3, 4) { (rng.usize(400, 700), 169usize) } else { (rng.usize(3, 5), 32_749usize) };
            let pos = None;
            let start = next[&q];
            next.insert(q.clone(), start + n as u64);
            ops.push(Op::Append { q, pos, lens: vec![l; n], chained: false });
            continue;
        }
        let nrec = match rng.below(10) {
            0..=2 => rng.usize(1, 3),
            3..=6 => rng.usize(4, 16),
            _ => rng.usize(17, 64),
        };
        let total: u64 = match rng.below(10) {
            0..=2 => rng.range(16 * nrec as u64, 2_000 + 16 * nrec as u64),
            3..=5 => rng.range(20_000, 70_000),
            6..=7 => rng.range(BLOCK as u64 - 200, BLOCK as u64 + 200) * rng.range(1, 3),
            8 => rng.range(file_size - 3_000, file_size + 3_000),
            _ => rng.range(file_size, 3 * file_size),
        };
        let total = total.max(16 * nrec as u64);
        // split total into nrec parts of at least 16 bytes
        let mut lens = vec![16usize; nrec];
        let mut left = total as usize - 16 * nrec;
        for i in 0..nrec {
            let take = if i + 1 == nrec { left } else { rng.usize(0, left / 2 + left / (nrec - i)).min(left) };
            lens[i] += take;
            left -= take;
        }
        // one batch in six ends (or starts) with an empty payload: a record that is nothing
        // but its 12-byte header
        let mut lens = lens;
        if rng.chance(1, 6) {
            if rng.chance(3, 4) {
                lens.push(0);
            } else {
                lens.insert(0, 0);
            }
        }
        let nrec = lens.len();
        let pos = if rng.chance(1, 8) { Some(next[&q] + rng.range(0, 5)) } else { None };
        let start = pos.unwrap_or(next[&q]);
        next.insert(q.clone(), start + nrec as u64);
        ops.push(Op::Append { q, pos, lens, chained: rng.chance(1, 8) });
    }
    ops
}

/// The oracle: every batch is recovered as nothing, or as a hole-free suffix containing
/// its last record, whose missing head lies at or below a truncate position issued on
/// that queue.
fn judge(snap: &Snapshot, batches: &[Batch], trunc: &BTreeMap<String, u64>) -> Result<(u64, u64, u64), (String, Value)> {
    let (mut whole, mut none, mut suffix) = (0, 0, 0);
    for b in batches {
        let n = b.hashes.len() as u64;
        let q = snap.queues.get(&b.queue);
        // Some(true/false) = decided by content; None = an EMPTY record at a position where a
        // batch of another incarnation of the queue also has an empty record (empty payloads
        // do not identify themselves): resolved below in favour of consistency
        let mut seen: Vec<Option<bool>> = Vec::with_capacity(n as usize);
        for i in 0..n {
            let p = b.first + i;
            let rec = q.and_then(|q| q.recs.binary_search_by_key(&p, |r| r.pos).ok().map(|ix| &q.recs[ix]));
            let other_has = |hash: u64| batches.iter().any(|o| o.queue == b.queue && o.inc != b.inc && p >= o.first && p < o.first + o.hashes.len() as u64 && o.hashes[(p - o.first) as usize] == hash);
            match rec {
                Some(r) if r.hash == b.hashes[i as usize] => {
                    if r.len == 0 && other_has(r.hash) {
                        seen.push(None);
                    } else {
                        seen.push(Some(true));
                    }
                }
                // the position holds a record of a batch of another incarnation of the queue
                Some(r) if other_has(r.hash) => seen.push(Some(false)),
                Some(r) => {
                    return Err((
                        "batch-record-altered".into(),
                        json!({"batch_op": b.op, "queue": short(&b.queue), "position": p, "recovered_len": r.len}),
                    ))
                }
                None => seen.push(Some(false)),
            }
        }
        let any_definite = seen.iter().any(|x| *x == Some(true));
        let present: Vec<bool> = seen.iter().map(|x| x.unwrap_or(any_definite)).collect();
        let cnt = present.iter().filter(|x| **x).count() as u64;
        if cnt == 0 {
            none += 1;
            continue;
        }
        if cnt == n {
            whole += 1;
            continue;
        }
        // must be a suffix
        let first_present = present.iter().position(|x| *x).unwrap();
        let is_suffix = present[first_present..].iter().all(|x| *x);
        let positions: Vec<u64> = present.iter().enumerate().filter(|(_, x)| **x).map(|(i, _)| b.first + i as u64).collect();
        if !is_suffix {
            let tail_missing = !present[present.len() - 1];
            return Err((
                if tail_missing { "batch-with-missing-tail".into() } else { "batch-with-hole".into() },
                json!({"batch_op": b.op, "queue": short(&b.queue), "batch_positions": format!("{}..={}", b.first, b.first + n - 1), "recovered_positions": crate::ops::span(&positions)}),
            ));
        }
        let last_missing = b.first + first_present as u64 - 1;
        // keyed by queue NAME, not incarnation: when damage swallows a delete_queue entry, a
        // truncate issued on the re-created queue legitimately applies to the records of the
        // earlier incarnation that the damage brought back
        match trunc.get(&b.queue) {
            Some(t) if last_missing <= *t => suffix += 1,
            other => {
                return Err((
                    "batch-head-missing-without-truncation".into(),
                    json!({"batch_op": b.op, "queue": short(&b.queue), "batch_positions": format!("{}..={}", b.first, b.first + n - 1), "recovered_positions": crate::ops::span(&positions), "highest_truncate_position_issued": other}),
                ))
            }
        }
    }
    Ok((whole, none, suffix))
}

/// See the call site.  Returns false after reporting a violation.
#[allow(clippy::too_many_arguments)]
fn aimed_continuation(ctx: &Ctx, run: &LiveRun, k: usize, wbegin: usize, i: usize, img: &crate::image::Image, vis: &[Batch], trunc: &BTreeMap<String, u64>, rng: &mut Rng, case: u64, acc: &mut Acc) -> bool {
    let Op::Append { q, lens, .. } = &run.ops[k] else { return true };
    // where the call started writing
    let Some((first_name, first_off)) = (wbegin + 1..=i).find_map(|j| match &run.events[j] {
        Ev::Write { name, off, data, .. } if !data.is_empty() => Some((name.clone(), *off as usize)),
        _ => None,
    }) else {
        return true;
    };
    // frames of the torn entry present in the image
    let mine: Vec<(String, crate::layout::Frame)> = all_frames(img).into_iter().filter(|(n, f)| *n > first_name || (*n == first_name && f.off >= first_off)).collect();
    if mine.is_empty() || mine.iter().any(|(_, f)| !f.crc_ok) || matches!(mine.last().unwrap().1.ftype, 1 | 4) || mine[0].1.ftype != 2 {
        return true;
    }
    let have: usize = mine.iter().map(|(_, f)| f.len).sum();
    let hdr = 11 + q.len();
    // the record of the torn batch that the cut goes through
    let mut start = hdr;
    let mut hit: Option<(usize, usize, usize)> = None;
    for (j, l) in lens.iter().enumerate() {
        let end = start + 12 + l;
        if have < end {
            hit = Some((j, start, end));
            break;
        }
        start = end;
    }
    let Some((j, rstart, rend)) = hit else { return true };
    if j > 1 || have < rstart + 12 {
        return true;
    }
    let missing = rend - have;
    let need = hdr + 2 * (12 + 16);
    if missing < need {
        return true;
    }
    let a = 16 + rng.below((missing - need) as u64 + 1) as usize;
    let bl = missing - hdr - 24 - a;
    let dir = ctx.scratch.sub("c12-cont");
    crate::util::clear_dir(&dir);
    img.materialize(&dir);
    let (r, sut, _) = recover(&dir, run.policy, run.key);
    let (Recovered::Ok(_), Some(mut sut)) = (r, sut) else { return true };
    let kb = run.ops.len() + 1000;
    let blens = vec![a, bl, 16, 16, 16];
    let bop = Op::Append { q: q.clone(), pos: None, lens: blens.clone(), chained: false };
    let Outcome::Appended { last: Some(last), .. } = sut.apply(kb, &bop) else { return true };
    if matches!(sut.apply(kb + 1, &Op::Restart), Outcome::Err(_)) {
        // C01/C02 territory: an acknowledged batch makes the next open fail
        acc.count("aimed_continuations_whose_restart_failed_(C02_territory)");
        return true;
    }
    let Ok(s) = Snapshot::take(sut.log()) else { return true };
    acc.eval();
    acc.count("aimed_continuations_after_a_clean_cut_inside_a_batch");
    let mut all: Vec<Batch> = vis.iter().map(|x| Batch { op: x.op, queue: x.queue.clone(), inc: x.inc, first: x.first, hashes: x.hashes.clone() }).collect();
    all.push(Batch {
        op: kb,
        queue: q.clone(),
        inc: u32::MAX, // another timeline: it re-uses the positions of the torn batch
        first: last + 1 - blens.len() as u64,
        hashes: blens.iter().enumerate().map(|(ix, l)| payload_hash(run.key, Pid { op: kb as u32, idx: ix as u32, len: *l as u32 })).collect(),
    });
    if let Err((what, detail)) = judge(&s, &all, trunc) {
        acc.violation(
            format!("C12/crash-continuation/{}", what),
            case,
            json!({"history": run.history_json(k + 1), "crash_point": {"inside_call": k, "after_effect_index": i, "frames_of_the_torn_batch_on_disk": mine.len(), "entry_bytes_on_disk": have}, "continuation": [bop.to_json(), {"op": "restart"}], "observation": detail, "recovered": s.to_json()}),
        );
        return false;
    }
    true
}

impl Monitor for C12 {
    fn id(&self) -> &'static str {
        "C12"
    }
    fn level(&self) -> &'static str {
        "fault_enumeration"
    }
    fn num_cases(&self, tier: Tier) -> u64 {
        tier.pick(1_600, 24_000)
    }
    fn floors(&self, tier: Tier) -> Vec<(&'static str, u64)> {
        vec![
            ("crash_images_recovered", tier.pick(60_000, 1_500_000)),
            ("damaged_images_opened", tier.pick(30_000, 700_000)),
            ("batches_multi_frame", tier.pick(500, 12_000)),
            ("batches_spanning_two_or_more_files", tier.pick(100, 2_500)),
            ("crash_points_inside_batch_append", tier.pick(30_000, 700_000)),
            ("batch_judgements_none_recovered", tier.pick(10_000, 200_000)),
            ("batch_judgements_whole_recovered", tier.pick(100_000, 2_000_000)),
            ("batch_judgements_truncated_suffix_recovered", tier.pick(500, 10_000)),
            ("damage_on_len_or_type_byte", tier.pick(5_000, 100_000)),
            ("recoveries_with_one_failing_read", tier.pick(5_000, 100_000)),
            ("aimed_continuations_after_a_clean_cut_inside_a_batch", tier.pick(300, 6_000)),
            ("second_restarts_after_a_crash_inside_a_batch", tier.pick(8_000, 150_000)),
        ]
    }
    fn rule(&self) -> String {
        "case = one focused history (1..2 queues, 4..14 batch appends of 1..64 self-identifying records totalling 16 B .. 3 WAL files, plus frame-commensurate batches of 400..700 records of 169 bytes / 3..5 records of 32749 bytes (12+len divides the 32761-byte frame payload), interleaved truncations of the same queue and, one op in nine, delete_queue + create_queue of the same name so that later batches re-use positions of an earlier incarnation) under Always(Flush); crash leg: every file-system effect boundary and frame-relative byte cuts of every write; damage leg: every frame written by a batch x {payload bit, payload garbage, checksum, length byte, type byte, whole frame zero-filled, empty-frame chain}; evaluation = one recovery (one in three recoveries of a crash inside a batch append is followed by a clean restart with nothing appended, judged again); one history in three opens with a batch whose first records fill the payload of its First frame exactly; oracle over batch boundaries known to the harness: each batch is recovered as nothing, everything, or a hole-free suffix ending at its last record whose missing head is at or below a truncate position issued on that queue; continuation leg: at a clean cut between two write() calls of a multi-write batch the recovered log receives a batch whose first two sizes are aimed at the bytes missing from the torn batch's straddling record, is restarted, and every batch is judged again; read-fault leg: up to 10 recoveries of the final image with one read failing once (EIO): if open returns a log anyway the same oracle applies; distinct_nontrivial = distinct (case, crash point or damaged frame+kind) inside or on a batch of >= 2 records".into()
    }
    fn assumptions(&self) -> Vec<String> {
        vec!["records are >= 16 bytes and carry their (op, index, length) identity, so membership of a recovered record in a batch is unambiguous even where a re-created queue re-uses positions".into()]
    }
    fn run_case(&self, ctx: &Ctx, case: u64, acc: &mut Acc) {
        quiet_panics();
        let parts = ctx.case_seed(case);
        let mut rng = Rng::from_parts(&parts);
        let live_dir = ctx.scratch.sub("c12-live");
        let key = parts[2] ^ parts[1].rotate_left(32);
        let ops = workload(&mut rng, 131_072);
        let run = match live_run_ops(&live_dir, Policy::AlwaysFlush, key, &ops) {
            Ok(r) => r,
            Err(e) => {
                acc.inconclusive(format!("live run failed: {}", e));
                return;
            }
        };
        crate::util::clear_dir(&live_dir);
        // batches known to the harness
        let mut batches: Vec<Batch> = Vec::new();
        let mut incs: BTreeMap<String, u32> = BTreeMap::new();
        for (k, (op, out)) in run.ops.iter().zip(run.outcomes.iter()).enumerate() {
            if let Op::Delete { q } = op {
                *incs.entry(q.clone()).or_insert(0) += 1;
                acc.count("queue_re_incarnations_(delete_then_create)");
            }
            if let (Op::Append { q, lens, .. }, Outcome::Appended { last: Some(last), .. }) = (op, out) {
                let first = last + 1 - lens.len() as u64;
                let hashes = lens.iter().enumerate().map(|(i, l)| payload_hash(key, Pid { op: k as u32, idx: i as u32, len: *l as u32 })).collect();
                batches.push(Batch { op: k, queue: q.clone(), inc: incs.get(q).copied().unwrap_or(0), first, hashes });
            }
        }
        // highest truncate position issued per queue by calls 0..=k (in-flight included)
        let trunc_upto = |k: usize| -> BTreeMap<String, u64> {
            let mut m = BTreeMap::new();
            for op in run.ops.iter().take(k + 1) {
                if let Op::Truncate { q, pos } = op {
                    let e = m.entry(q.clone()).or_insert(*pos);
                    if *pos > *e {
                        *e = *pos;
                    }
                }
            }
            m
        };
        let wins = windows(&run.events);
        let rec_dir = ctx.scratch.sub("c12-rec");
        let mut mat = Mat::new(&rec_dir);
        let mut b = Builder::new(run.initial.clone());
        let dense = ctx.tier == Tier::Thorough && rng.chance(1, 4);

        // ---- crash leg ------------------------------------------------------------------
        for w in &wins {
            let k = if w.id == u64::MAX { 0 } else { w.id as usize };
            let is_batch = w.id != u64::MAX && matches!(&run.ops[k], Op::Append { lens, .. } if !lens.is_empty());
            let big_batch = w.id != u64::MAX && matches!(&run.ops[k], Op::Append { lens, .. } if lens.len() >= 2);
            let trunc = trunc_upto(k);
            // batches that can be (partly) on disk at this point: those of calls <= k
            let visible: Vec<&Batch> = batches.iter().filter(|x| x.op <= k).collect();
            for i in w.begin + 1..w.end {
                let ev = &run.events[i];
                let mut check = |img: &crate::image::Image, mat: &mut Mat, point: Value, acc: &mut Acc| -> bool {
                    mat.sync(img);
                    let (r, mut sut, evs) = recover(&mat.dir, run.policy, run.key);
                    mat.touched_by(&evs);
                    // one recovery in three of a crash inside a batch append is followed by a
                    // clean restart with nothing appended in between: what recovery itself wrote
                    // must not make a part of the torn batch visible later
                    let mut second: Option<Snapshot> = None;
                    if is_batch && acc.get("crash_points_inside_batch_append") % 3 == 0 {
                        if let (Recovered::Ok(_), Some(s)) = (&r, sut.as_mut()) {
                            let reopened = s.reopen(u64::MAX - 7);
                            let evs2 = crate::shim::take_events(&mat.dir);
                            crate::shim::reset();
                            mat.touched_by(&evs2);
                            match reopened {
                                Ok(()) => {
                                    second = Snapshot::take(s.log()).ok();
                                    acc.count("second_restarts_after_a_crash_inside_a_batch");
                                }
                                Err(_) => {
                                    acc.count("second_restarts_that_failed_(C02_territory)");
                                    mat.invalidate_all();
                                    sut = None;
                                }
                            }
                        }
                    }
                    finish(sut, mat);
                    acc.eval();
                    acc.count("crash_images_recovered");
                    if is_batch {
                        acc.count("crash_points_inside_batch_append");
                    }
                    if let Some(s2) = &second {
                        let vis: Vec<Batch> = visible.iter().map(|x| Batch { op: x.op, queue: x.queue.clone(), inc: x.inc, first: x.first, hashes: x.hashes.clone() }).collect();
                        if let Err((what, detail)) = judge(s2, &vis, &trunc) {
                            acc.violation(format!("C12/crash/after-a-second-restart/{}", what), case, json!({"history": run.history_json(k + 1), "crash_point": point, "observation": detail, "recovered_after_second_restart": s2.to_json(), "note": "recovered once (judged separately), then restarted cleanly with nothing appended"}));
                            return false;
                        }
                    }
                    match r {
                        Recovered::Ok(s) => {
                            let vis: Vec<Batch> = visible.iter().map(|x| Batch { op: x.op, queue: x.queue.clone(), inc: x.inc, first: x.first, hashes: x.hashes.clone() }).collect();
                            match judge(&s, &vis, &trunc) {
                                Ok((wh, no, su)) => {
                                    acc.add("batch_judgements_whole_recovered", wh);
                                    acc.add("batch_judgements_none_recovered", no);
                                    acc.add("batch_judgements_truncated_suffix_recovered", su);
                                    true
                                }
                                Err((what, detail)) => {
                                    acc.violation(format!("C12/crash/{}", what), case, json!({"history": run.history_json(k + 1), "crash_point": point, "observation": detail, "recovered": s.to_json()}));
                                    false
                                }
                            }
                        }
                        other => {
                            // open failing after a crash is C02's subject
                            acc.count(&format!("crash_recovery_not_ok_(C02_territory)_{}", super::c02::recovered_sig(&other)));
                            true
                        }
                    }
                };
                if let Ev::Write { name, off, data, .. } = ev {
                    if !data.is_empty() && b.cur.files.contains_key(name) {
                        let cuts = cuts_for_write(*off, data, &mut rng, dense);
                        let saved = b.cur.files.get(name).cloned().unwrap();
                        for c in cuts {
                            {
                                let f = b.cur.files.get_mut(name).unwrap();
                                f.clone_from(&saved);
                                let end = *off as usize + c;
                                if f.len() < end {
                                    f.resize(end, 0);
                                }
                                f[*off as usize..end].copy_from_slice(&data[..c]);
                            }
                            mat.mark_dirty(name);
                            if big_batch {
                                acc.distinct(hash_combine(hash_combine(case, i as u64), c as u64 + 1));
                            }
                            let img = b.cur.clone();
                            if !check(&img, &mut mat, json!({"inside_call": k, "effect_index": i, "effect": ev.brief(), "bytes_of_write_applied": c}), acc) {
                                return;
                            }
                        }
                        b.cur.files.insert(name.clone(), saved);
                        mat.mark_dirty(name);
                    }
                }
                if let Some(n) = touched_name(ev) {
                    mat.mark_dirty(n);
                }
                b.apply(ev);
                if !b.unmodelled.is_empty() {
                    acc.inconclusive(format!("unmodelled file-system call in the trace: {}", b.unmodelled[0]));
                    return;
                }
                if ev.mutates() {
                    if big_batch {
                        acc.distinct(hash_combine(hash_combine(case, i as u64), 0));
                    }
                    let img = b.cur.clone();
                    if !check(&img, &mut mat, json!({"inside_call": k, "effect_index": i, "after_effect": ev.brief()}), acc) {
                        return;
                    }
                    // clean cut between two writes of a multi-write batch: continue on the
                    // recovered log with a batch whose sizes are aimed at what is missing of the
                    // torn batch's straddling record, restart, and judge again (a reader that
                    // glues the leftover First frame to the next entry then exposes a batch
                    // that is neither whole nor absent)
                    let later_write = (i + 1..w.end).any(|j| matches!(&run.events[j], Ev::Write { data, .. } if !data.is_empty()));
                    if is_batch && later_write && matches!(ev, Ev::Write { .. }) {
                        let vis: Vec<Batch> = visible.iter().map(|x| Batch { op: x.op, queue: x.queue.clone(), inc: x.inc, first: x.first, hashes: x.hashes.clone() }).collect();
                        if !aimed_continuation(ctx, &run, k, w.begin, i, &img, &vis, &trunc, &mut rng, case, acc) {
                            return;
                        }
                    }
                }
            }
        }

        // ---- damage leg -----------------------------------------------------------------
        let img = match final_image(&run) {
            Ok(i) => i,
            Err(u) => {
                acc.inconclusive(format!("unmodelled file-system call: {}", u));
                return;
            }
        };
        // byte ranges written by each batch call
        let mut ranges: Vec<(String, u64, u64, usize)> = Vec::new();
        for w in &wins {
            if w.id == u64::MAX {
                continue;
            }
            let k = w.id as usize;
            if !matches!(&run.ops[k], Op::Append { .. }) {
                continue;
            }
            for i in w.begin + 1..w.end {
                if let Ev::Write { name, off, data, .. } = &run.events[i] {
                    if !data.is_empty() {
                        ranges.push((name.clone(), *off, *off + data.len() as u64, k));
                    }
                }
            }
        }
        let frames = all_frames(&img);
        let trunc_all = trunc_upto(run.ops.len());
        let dmg_dir = ctx.scratch.sub("c12-dmg");
        img.materialize(&dmg_dir);
        let mut per_batch_frames: BTreeMap<usize, u64> = BTreeMap::new();
        let mut per_batch_files: BTreeMap<usize, std::collections::BTreeSet<String>> = BTreeMap::new();
        let cap = ctx.tier.pick(160usize, 1500);
        let batch_frames: Vec<&(String, crate::layout::Frame)> = frames
            .iter()
            .filter(|(n, f)| ranges.iter().any(|(rn, s, e, _)| rn == n && (f.off as u64) >= *s && (f.off as u64) < *e))
            .collect();
        for (n, f) in &batch_frames {
            if let Some(r) = ranges.iter().find(|(rn, s, e, _)| rn == n && (f.off as u64) >= *s && (f.off as u64) < *e) {
                *per_batch_frames.entry(r.3).or_default() += 1;
                per_batch_files.entry(r.3).or_default().insert(n.clone());
            }
        }
        acc.add("batches", batches.len() as u64);
        acc.add("batches_multi_frame", per_batch_frames.values().filter(|c| **c >= 2).count() as u64);
        acc.add("batches_spanning_two_or_more_files", per_batch_files.values().filter(|s| s.len() >= 2).count() as u64);
        let step = if batch_frames.len() > cap { batch_frames.len() as f64 / cap as f64 } else { 1.0 };
        let mut fi = 0f64;
        while (fi as usize) < batch_frames.len() {
            let (fname, f) = batch_frames[fi as usize];
            let fidx = fi as usize;
            fi += step;
            let orig = img.files[fname].clone();
            for kind in 0..7 {
                let mut d = orig.clone();
                let what = match kind {
                    6 => {
                        // the whole frame zero-filled, header included (for a Middle frame: its
                        // whole block reads as never written)
                        for b in d[f.off..f.off + HDR + f.len].iter_mut() {
                            *b = 0;
                        }
                        "whole-frame-zeroed"
                    }
                    5 => {
                        // the frame (and whatever follows it in its block) replaced by a gap-free
                        // chain of empty Middle frames: no checksum-verifying reader accepts them
                        if f.off % BLOCK != 0 && !rng.chance(1, 4) {
                            continue;
                        }
                        crate::damage::empty_frame_chain_to_block_end(&mut d, f.off, 3, &mut rng);
                        "replaced-by-empty-frame-chain"
                    }
                    0 if f.len > 0 => {
                        let o = f.payload_off() + rng.usize(0, f.len - 1);
                        d[o] ^= 1 << rng.below(8);
                        "payload-bit"
                    }
                    1 if f.len > 0 => {
                        let o = f.payload_off();
                        rng.fill(&mut d[o..o + f.len]);
                        "payload-garbage"
                    }
                    2 => {
                        d[f.off + rng.usize(0, 3)] ^= 1 << rng.below(8);
                        "checksum"
                    }
                    3 => {
                        // length field: bit flip, or a plausible other length
                        if rng.chance(1, 2) {
                            d[f.off + 4 + rng.usize(0, 1)] ^= 1 << rng.below(8);
                        } else {
                            let nl = (rng.below(BLOCK as u64 - HDR as u64) as u16).to_le_bytes();
                            d[f.off + 4] = nl[0];
                            d[f.off + 5] = nl[1];
                        }
                        "length"
                    }
                    4 => {
                        d[f.off + 6] = *rng.pick(&[0u8, 1, 2, 3, 4, 5, 255]);
                        "type"
                    }
                    _ => continue,
                };
                if d == orig {
                    continue;
                }
                std::fs::write(dmg_dir.join(fname), &d).expect("write damaged file");
                let r = std::panic::catch_unwind(std::panic::AssertUnwindSafe(|| mrecordlog::MultiRecordLog::open(&dmg_dir).map(|log| Snapshot::take(&log))));
                acc.eval();
                acc.count("damaged_images_opened");
                if kind >= 3 {
                    acc.count("damage_on_len_or_type_byte");
                }
                acc.distinct(hash_combine(hash_combine(case, 1 << 40 | fidx as u64), kind));
                if let Ok(Ok(Ok(s))) = r {
                    match judge(&s, &batches, &trunc_all) {
                        Ok((wh, no, su)) => {
                            acc.add("batch_judgements_whole_recovered", wh);
                            acc.add("batch_judgements_none_recovered", no);
                            acc.add("batch_judgements_truncated_suffix_recovered", su);
                        }
                        Err((what2, detail)) => {
                            acc.violation(
                                format!("C12/damage/{}/{}", what, what2),
                                case,
                                json!({"history": run.history_json(run.ops.len()), "damaged_frame": {"file": fname, "offset": f.off, "payload_len": f.len, "frame_type": f.ftype, "damage": what}, "observation": detail, "recovered": s.to_json()}),
                            );
                            img.materialize(&dmg_dir);
                            return;
                        }
                    }
                } else {
                    acc.count("damaged_open_not_ok_(Err_or_C10_territory)");
                }
                img.materialize(&dmg_dir);
            }
        }
        // ---- read-fault leg ---------------------------------------------------------------
        // one read of the recovery fails (transient EIO): if open still returns a log, the
        // batches in it must be whole (a block that could not be read is a hole in the WAL)
        {
            let (_, sut0, evs0) = recover(&dmg_dir, run.policy, run.key);
            drop(sut0);
            let nreads = evs0.iter().filter(|e| matches!(e, Ev::Read { .. })).count() as i64;
            let mut picks: Vec<i64> = (1..=nreads).collect();
            while picks.len() > 10 {
                let i = rng.below(picks.len() as u64) as usize;
                picks.swap_remove(i);
            }
            for nth in picks {
                let (r, sut, _) = super::crash::recover_faulted(&dmg_dir, run.policy, run.key, true, Some((crate::shim::CL_READ, nth, libc::EIO)));
                drop(sut);
                img.materialize(&dmg_dir);
                acc.eval();
                acc.count("recoveries_with_one_failing_read");
                match r {
                    Recovered::Ok(s) => {
                        acc.count("recoveries_with_one_failing_read_that_returned_a_log_(C11_territory)");
                        if let Err((what2, detail)) = judge(&s, &batches, &trunc_all) {
                            acc.violation(
                                format!("C12/read-fault/{}", what2),
                                case,
                                json!({"history": run.history_json(run.ops.len()), "failing_read_of_recovery": nth, "reads_of_a_fault_free_recovery": nreads, "observation": detail, "recovered": s.to_json()}),
                            );
                            return;
                        }
                    }
                    _ => {}
                }
            }
        }
        acc.sample(|| {
            json!({
                "case": case, "history": run.history_json(run.ops.len().min(12)),
                "batches": batches.iter().take(8).map(|b| json!({"op": b.op, "queue": short(&b.queue), "first": b.first, "records": b.hashes.len()})).collect::<Vec<_>>(),
                "frames_written_by_batches": batch_frames.len(),
            })
        });
    }
}
