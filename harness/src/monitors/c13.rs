//! C13 -- rejected and no-op calls leave no trace.  DESIGN.md 4/C13.

use serde_json::json;

use super::common::Driver;
use crate::gen::Profile;
use crate::image::Image;
use crate::ops::{ErrKind, Op, Outcome, Snapshot, ALL_POLICIES};
use crate::runner::{Acc, Ctx, Monitor, Tier};
use crate::util::{hash_combine, hash_str, Rng};

pub struct C13;

/// Which rejected / no-op shape is this call, judged from its ARGUMENTS and the state of
/// the addressed queue before the call (existence and next position, as tracked by the
/// generator from the statement's rules) - not from what the library answered.
fn expected_shape(op: &Op, st: &std::collections::BTreeMap<String, crate::gen::GQ>) -> Option<&'static str> {
    match op {
        Op::Create { q } if st.contains_key(q) => Some("create_queue(existing)"),
        Op::Delete { q } if !st.contains_key(q) => Some("delete_queue(missing)"),
        Op::Truncate { q, .. } if !st.contains_key(q) => Some("truncate(missing)"),
        Op::Append { q, .. } if !st.contains_key(q) => Some("append(missing)"),
        Op::Append { q, pos, lens, .. } => {
            let next = st[q].next;
            match pos {
                Some(p) if *p + 1 == next && !lens.is_empty() => Some("append(retry-of-last-position)"),
                Some(p) if *p + 1 < next => Some("append(position-in-the-past)"),
                Some(_) if lens.is_empty() => Some("append(empty-batch,Some)"),
                None if lens.is_empty() => Some("append(empty-batch,None)"),
                _ => None,
            }
        }
        _ => None,
    }
}

impl Monitor for C13 {
    fn id(&self) -> &'static str {
        "C13"
    }
    fn level(&self) -> &'static str {
        "exploration"
    }
    fn num_cases(&self, tier: Tier) -> u64 {
        tier.pick(9_600, 240_000)
    }
    fn floors(&self, tier: Tier) -> Vec<(&'static str, u64)> {
        let f = tier.pick(300, 6_000);
        vec![
            ("noop_or_rejected_calls_checked", tier.pick(20_000, 400_000)),
            ("shape_create_queue(existing)", f),
            ("shape_delete_queue(missing)", f),
            ("shape_truncate(missing)", f),
            ("shape_append(missing)", f),
            ("shape_append(position-in-the-past)", f),
            ("shape_append(retry-of-last-position)", f),
            ("shape_append(empty-batch,None)", f),
            ("shape_append(empty-batch,Some)", f),
            ("restarts_after_noop_checked", tier.pick(3_000, 60_000)),
            ("checked_under_lazy_policy", tier.pick(5_000, 100_000)),
            ("checked_with_bytes_possibly_buffered", tier.pick(5_000, 100_000)),
            ("noop_shapes_issued_on_an_exactly_full_wal_file", tier.pick(100, 2_000)),
            ("due_persists_checked_after_a_noop_under_OnDelay", tier.pick(300, 6_000)),
        ]
    }
    fn rule(&self) -> String {
        "case = one generated history under any of 8 persist policies with rejected / no-op call shapes inserted at random points and whenever the write cursor is within 48 bytes of the end of the WAL file, in particular when the file is full to its last byte (8 shapes, on existing and non-existing queues); around each such call: (half of the time) persist(Flush) to drain buffers, snapshot + per-file content hash of the directory, the call, (if drained) a trailing persist(Flush), then: the syscall trace of the call itself is EMPTY (no write, no fsync, no open, no seek) and the trailing flush writes nothing, snapshot, memory_used_bytes, memory_allocated_bytes, disk_used_bytes and directory content unchanged, wal_bytes_written == 0; under OnDelay(2 ms) a quarter of the no-ops are preceded by a 3 ms sleep and followed by an effective append, which must flush (the no-op must not consume the persist that was due); with probability 1/3 an immediate restart must also reproduce the pre-call snapshot; evaluation = one such call; distinct_nontrivial = distinct (shape, policy, pre-call state digest)".into()
    }
    fn run_case(&self, ctx: &Ctx, case: u64, acc: &mut Acc) {
        let parts = ctx.case_seed(case);
        let mut rng = Rng::from_parts(&parts);
        let profile = *rng.pick(&[Profile::Mixed, Profile::Mixed, Profile::Gc, Profile::Dense, Profile::Delete, Profile::Idle, Profile::BigName, Profile::Align, Profile::Align, Profile::Align]);
        let policy = *rng.pick(&ALL_POLICIES);
        let nq = rng.usize(1, 4);
        let nops = rng.usize(40, 120);
        let dir = ctx.scratch.sub("c13");
        let key = parts[2] ^ parts[1].rotate_left(32);
        let mut d = match Driver::start(&dir, policy, key, &parts, profile, nq) {
            Ok(d) => d,
            Err(e) => {
                acc.inconclusive(format!("cannot open a fresh directory: {:?}", e));
                return;
            }
        };
        d.gen.cfg.bad_pm = 0;
        d.gen.cfg.restart_pm = 20;
        let mut sampled = false;
        let mut forced = 0u32;
        for _ in 0..nops {
            // a WAL file filled to its very last byte (or nearly): the next frame, whatever it
            // is, rolls over - the place where a no-op that "prepares" a write leaves a trace
            let rem_in_file = if d.cursor > 0 && policy.always() { (d.file_size - d.cursor % d.file_size) % d.file_size } else { u64::MAX };
            // at most four forced no-ops in a row (they do not move the cursor)
            let near_file_end = rem_in_file < 48 && forced < 4;
            forced = if rem_in_file < 48 { forced + 1 } else { 0 };
            if rem_in_file < 48 && !near_file_end && rng.chance(1, 2) {
                forced = 0;
            }
            if near_file_end {
                acc.count(if rem_in_file == 0 { "noop_shapes_issued_on_an_exactly_full_wal_file" } else { "noop_shapes_issued_within_48_bytes_of_the_file_end" });
            }
            if !near_file_end && !rng.chance(1, 4) {
                let st = d.step();
                if st.outcome.is_io_err() {
                    acc.inconclusive(format!("I/O error from a live call: {:?}", st.outcome));
                    return;
                }
                if matches!((&st.op, &st.outcome), (Op::Restart, Outcome::Err(_))) {
                    acc.inconclusive("restart failed (C01 territory)".to_string());
                    return;
                }
                continue;
            }
            // a rejected / no-op shape
            let bad = d.gen.gen_bad();
            // half of the time drain buffered bytes first, so that the directory content can be
            // compared byte for byte around the call; the other half leave whatever earlier
            // calls buffered (lazy policies) in place: the no-op must not flush it either
            let drained = rng.chance(1, 2);
            if drained {
                let _ = d.apply(Op::Persist { fsync: false });
            }
            let before = match Snapshot::take(d.sut.log()) {
                Ok(s) => s,
                Err(e) => {
                    acc.inconclusive(format!("snapshot failed: {}", e));
                    return;
                }
            };
            let disk_before = d.sut.log().resource_usage().disk_used_bytes;
            let mem_before = d.sut.log().resource_usage().memory_used_bytes;
            let alloc_before = d.sut.log().resource_usage().memory_allocated_bytes;
            let summary_before = serde_json::to_string(&d.sut.log().summary().queues).unwrap_or_default();
            let img_before = Image::from_dir(&dir).digest();
            let Some(shape) = expected_shape(&bad, &d.gen.st) else {
                acc.count("generated_call_is_not_a_noop_shape");
                d.gen.note_external(&bad);
                let _ = d.apply(bad.clone());
                continue;
            };
            d.gen.note_external(&bad);
            // OnDelay(2 ms): let the delay elapse right before the no-op (undrained mode only,
            // so that no explicit persist sits between the sleep and the follow-up append):
            // the persist that is due must still be due afterwards
            let due_leg = policy == crate::ops::Policy::DelayShortFlush && !drained && rng.chance(1, 2);
            if due_leg {
                std::thread::sleep(std::time::Duration::from_millis(3));
            }
            let st = d.apply(bad.clone());
            let tail_events = if drained { d.apply(Op::Persist { fsync: false }).events } else { Vec::new() };
            if st.outcome.is_io_err() {
                acc.inconclusive(format!("I/O error or panic from a live call: {:?}", st.outcome));
                return;
            }
            let as_expected = match (&st.outcome, shape) {
                (Outcome::Err(ErrKind::AlreadyExists), "create_queue(existing)") => true,
                (Outcome::Err(ErrKind::MissingQueue), s) if s.ends_with("(missing)") => true,
                (Outcome::Err(ErrKind::Past), "append(position-in-the-past)") => true,
                (Outcome::Appended { last: None, .. }, s) if s.starts_with("append(retry") || s.starts_with("append(empty") => true,
                _ => false,
            };
            if !as_expected {
                acc.count("noop_shape_answered_differently_(outcome_is_C05_territory)");
            }
            acc.eval();
            acc.count("noop_or_rejected_calls_checked");
            acc.count(&format!("shape_{}", shape));
            if !policy.always() {
                acc.count("checked_under_lazy_policy");
            }
            acc.distinct(hash_combine(hash_combine(hash_str(shape), hash_str(policy.name())), before.digest()));
            let detail = |what: &str, extra: serde_json::Value| json!({"history": d.history_json(300), "call": st.op.to_json(), "outcome": st.outcome.to_json(), "shape": shape, "violated": what, "observation": extra});
            // (1) the I/O trace of the call itself must be EMPTY: no write, no fsync, no open,
            //     no seek, nothing; and the flush issued right after it (drained mode) must
            //     find nothing to write
            let in_call: Vec<String> = st.events.iter().filter(|e| !matches!(e, crate::shim::Ev::Mark { .. })).map(|e| e.brief()).collect();
            acc.count(if drained { "checked_with_drained_buffer" } else { "checked_with_bytes_possibly_buffered" });
            if !in_call.is_empty() {
                let mutating = st.events.iter().any(|e| e.mutates());
                acc.violation(
                    format!("C13/io-trace-not-empty/{}{}", shape, if mutating { "" } else { "/sync-or-read-only-calls" }),
                    case,
                    detail("the rejected / no-op call issued file-system calls", json!({"events": in_call, "policy": policy.name(), "buffer_drained_before_the_call": drained})),
                );
                return;
            }
            let muts: Vec<String> = tail_events.iter().filter(|e| e.mutates()).map(|e| e.brief()).collect();
            if !muts.is_empty() {
                acc.violation(format!("C13/io-trace-not-empty/{}/flushed-right-after", shape), case, detail("the flush right after the call had something to write", json!({"events": muts})));
                return;
            }
            // (2) reported bytes
            if let Some(b) = st.outcome.bytes() {
                if b != 0 {
                    acc.violation(format!("C13/wal_bytes_written-nonzero/{}", shape), case, detail("wal_bytes_written must be 0", json!({"reported": b})));
                    return;
                }
            }
            // (3) observable state, disk usage, directory content
            let after = match Snapshot::take(d.sut.log()) {
                Ok(s) => s,
                Err(e) => {
                    acc.violation(format!("C13/read-api-inconsistent/{}", shape), case, detail("read accessors", json!({"error": e})));
                    return;
                }
            };
            if let Some(diff) = before.diff(&after) {
                acc.violation(format!("C13/state-changed/{}", shape), case, detail("observable state changed", json!({"diff": diff})));
                return;
            }
            // summary() (start / end / first file of every queue) and the memory accounting are
            // observable too
            let summary_after = serde_json::to_string(&d.sut.log().summary().queues).unwrap_or_default();
            if summary_after != summary_before {
                acc.violation(format!("C13/summary-changed/{}", shape), case, detail("summary() changed", json!({"before": summary_before.chars().take(400).collect::<String>(), "after": summary_after.chars().take(400).collect::<String>()})));
                return;
            }
            if d.sut.log().resource_usage().memory_used_bytes != mem_before {
                acc.violation(format!("C13/memory_used_bytes-changed/{}", shape), case, detail("memory_used_bytes changed", json!({"before": mem_before, "after": d.sut.log().resource_usage().memory_used_bytes})));
                return;
            }
            if d.sut.log().resource_usage().memory_allocated_bytes != alloc_before {
                acc.violation(
                    format!("C13/memory_allocated_bytes-changed/{}", shape),
                    case,
                    detail("memory_allocated_bytes changed", json!({"before": alloc_before, "after": d.sut.log().resource_usage().memory_allocated_bytes})),
                );
                return;
            }
            if d.sut.log().resource_usage().disk_used_bytes != disk_before {
                acc.violation(format!("C13/disk_used_bytes-changed/{}", shape), case, detail("disk_used_bytes changed", json!({})));
                return;
            }
            if drained && Image::from_dir(&dir).digest() != img_before {
                acc.violation(format!("C13/wal-content-changed/{}", shape), case, detail("WAL file contents changed", json!({})));
                return;
            }
            // (3b) policy state: under OnDelay the no-op must not consume a persist that is due.
            //      The delay elapsed before the no-op, so the next effective append has to
            //      flush; an explicit flush right after it must find nothing left to write.
            if due_leg {
                if let Some(q) = d.gen.st.keys().next().cloned() {
                    let op = Op::Append { q, pos: None, lens: vec![48], chained: false };
                    d.gen.note_external(&op);
                    let a = d.apply(op.clone());
                    if matches!(a.outcome, Outcome::Appended { last: Some(_), .. }) {
                        let t = d.apply(Op::Persist { fsync: false });
                        acc.count("due_persists_checked_after_a_noop_under_OnDelay");
                        let left: Vec<String> = t.events.iter().filter(|e| e.mutates()).map(|e| e.brief()).collect();
                        if !left.is_empty() {
                            acc.violation(
                                format!("C13/noop-consumed-a-due-persist/{}", shape),
                                case,
                                json!({"history": d.history_json(300), "call": st.op.to_json(), "outcome": st.outcome.to_json(), "shape": shape, "violated": "OnDelay(2 ms): the delay had elapsed before the no-op; the append that followed it did not flush", "observation": {"follow_up_append": op.to_json(), "bytes_still_buffered_after_it": left}}),
                            );
                            return;
                        }
                    }
                }
            }
            // (4) no effect after a restart either (not after the follow-up append of (3b), which
            //     changed the state on purpose)
            if !due_leg && rng.chance(1, 3) {
                let r = d.apply(Op::Restart);
                if let Outcome::Err(e) = &r.outcome {
                    acc.inconclusive(format!("restart failed (C01 territory): {:?}", e));
                    return;
                }
                let again = match Snapshot::take(d.sut.log()) {
                    Ok(s) => s,
                    Err(e) => {
                        acc.inconclusive(format!("snapshot failed: {}", e));
                        return;
                    }
                };
                acc.count("restarts_after_noop_checked");
                if let Some(diff) = before.diff(&again) {
                    acc.violation(
                        format!("C13/state-changed-after-restart/{}", shape),
                        case,
                        json!({"history": d.history_json(300), "call": st.op.to_json(), "outcome": st.outcome.to_json(), "shape": shape, "violated": "the no-op had an effect after restart", "observation": {"diff": diff}}),
                    );
                    return;
                }
            }
            if !sampled {
                sampled = true;
                acc.sample(|| json!({"case": case, "policy": policy.name(), "shape": shape, "call": st.op.to_json(), "outcome": st.outcome.to_json(), "events_in_window": st.events.iter().map(|e| e.brief()).collect::<Vec<_>>()}));
            }
        }
    }
}
