//! C14 -- the persist policy never changes logical behaviour.
//! Lock-step differential across eight policies; no reference model.  DESIGN.md 4/C14.

use serde_json::json;

use crate::gen::{Gen, GenCfg, Profile};
use crate::ops::{Op, Outcome, Policy, Snapshot, Sut, ALL_POLICIES};
use crate::runner::{Acc, Ctx, Monitor, Tier};
use crate::util::{hash_combine, Rng};

pub struct C14;

impl Monitor for C14 {
    fn id(&self) -> &'static str {
        "C14"
    }
    fn level(&self) -> &'static str {
        "exploration"
    }
    fn num_cases(&self, tier: Tier) -> u64 {
        tier.pick(640, 16_000)
    }
    fn floors(&self, tier: Tier) -> Vec<(&'static str, u64)> {
        vec![
            ("calls_compared_across_policies", tier.pick(40_000, 1_000_000)),
            ("restarts_compared_across_policies", tier.pick(1_500, 40_000)),
            ("reopens_under_a_different_policy", tier.pick(3_000, 80_000)),
            ("histories_with_rollover", tier.pick(200, 5_000)),
            ("writes_ending_within_6_bytes_of_a_block_end", tier.pick(200, 5_000)),
            ("disk_usage_compared_across_policies", tier.pick(20_000, 500_000)),
        ]
    }
    fn rule(&self) -> String {
        "case = one generated history (profiles mixed, gc, idle, delete, dense, huge, bigname and - 2 in 10 - align, which aims entries at block and file ends using the write cursor of the traced Always(Flush) instance) applied in lock-step to eight logs (OnDelay(250 us, FlushAndFsync), DoNothing, OnDelay(1h,Flush), OnDelay(1h,FlushAndFsync), OnDelay(0,FlushAndFsync), OnDelay(2ms,Flush) with 3 ms sleeps before every fifth call so that the delay elapses between calls, Always(Flush), Always(FlushAndFsync)); explicit persist calls of the history are issued on the even-numbered logs only; evaluation = one call whose outcomes (positions, eviction counts, error variants; byte counts excluded) and observable states must agree, or one restart / final reopen-under-another-policy comparison; resource_usage().disk_used_bytes is compared as well for as long as every call returned the same byte count under every policy (all instances then hold WAL streams of the same length); distinct_nontrivial = distinct state digests reached after calls of histories that rolled over at least once".into()
    }
    fn assumptions(&self) -> Vec<String> {
        vec!["byte counts (wal_bytes_written) are not part of the comparison: the statement lists positions, eviction counts and errors".into()]
    }
    fn run_case(&self, ctx: &Ctx, case: u64, acc: &mut Acc) {
        let parts = ctx.case_seed(case);
        let mut rng = Rng::from_parts(&parts);
        let profile = *rng.pick(&[Profile::Mixed, Profile::Gc, Profile::Gc, Profile::Idle, Profile::Delete, Profile::Dense, Profile::Huge, Profile::Align, Profile::Align, Profile::BigName]);
        let nq = rng.usize(1, 4);
        let nops = rng.usize(40, 120);
        let key = parts[2] ^ parts[1].rotate_left(32);
        let mut suts: Vec<Sut> = Vec::new();
        // the Always(Flush) instance is traced: its write cursor (identical under every policy,
        // the WAL bytes are the same) feeds the `align` profile
        const TRACED: usize = 5;
        crate::shim::reset_all();
        let traced_dir = ctx.scratch.sub(&format!("c14-{}", TRACED));
        crate::shim::set_root(&traced_dir);
        let mut cursor: u64 = 0;
        for (i, p) in ALL_POLICIES.iter().enumerate() {
            let dir = ctx.scratch.sub(&format!("c14-{}", i));
            match Sut::open(&dir, *p, key, i == TRACED) {
                Ok(s) => suts.push(s),
                Err(e) => {
                    acc.inconclusive(format!("cannot open a fresh directory: {:?}", e));
                    return;
                }
            }
        }
        let file_size = suts[0].log().resource_usage().disk_used_bytes as u64;
        let mut cfg = GenCfg::new(profile, nq, file_size.max(1));
        cfg.restart_pm = 40;
        cfg.persist_pm = 60;
        cfg.bad_pm = 60;
        let mut gen = Gen::new(&parts, cfg);
        let mut ops: Vec<Op> = Vec::new();
        let mut rolled = false;
        // true while every instance is known to have appended the same NUMBER of bytes to its
        // WAL after every call (the byte counts returned so far all agreed, and no restart ran
        // its unreported GC pass with two or more empty queues, whose position records are
        // written in HashMap order and can pad differently): the set of WAL files, hence
        // disk_used_bytes, is then a function of the history alone
        let mut same_stream_lengths = true;
        for k in 0..nops {
            let op = gen.next_op(Some(cursor));
            ops.push(op.clone());
            let mut outs: Vec<Outcome> = Vec::new();
            for (i, s) in suts.iter_mut().enumerate() {
                if matches!(op, Op::Persist { .. }) && i % 2 == 1 {
                    outs.push(Outcome::Persisted);
                    continue;
                }
                outs.push(s.apply(k, &op));
                if i == TRACED {
                    for e in crate::shim::take_events(&traced_dir) {
                        if let crate::shim::Ev::Write { off, data, name, .. } = &e {
                            if name.starts_with("wal-") && !data.is_empty() {
                                cursor = off + data.len() as u64;
                                if (cursor % 32768) > 32768 - 7 {
                                    acc.count("writes_ending_within_6_bytes_of_a_block_end");
                                }
                            }
                        }
                    }
                    crate::shim::reset();
                }
            }
            if outs.iter().any(|o| o.is_panic()) && !outs.iter().all(|o| o.is_panic()) {
                // the library panicked under some policies only: the policy changed behaviour
                let hist = json!({"profile": profile.name(), "ops": crate::ops::ops_json(&ops[ops.len().saturating_sub(300)..])});
                let which: Vec<&str> = outs.iter().zip(ALL_POLICIES.iter()).filter(|(o, _)| o.is_panic()).map(|(_, p)| p.name()).collect();
                acc.violation(
                    format!("C14/call-panics-under-some-policies-only/{}/{}", op.kind(), which.first().copied().unwrap_or("")),
                    case,
                    json!({"history": hist, "call": op.to_json(), "outcomes": outs.iter().zip(ALL_POLICIES.iter()).map(|(o, p)| format!("{}: {:?}", p.name(), o)).collect::<Vec<_>>()}),
                );
                return;
            }
            if outs.iter().any(|o| o.is_io_err()) {
                acc.inconclusive("I/O error from a live call".to_string());
                return;
            }
            let hist = || json!({"profile": profile.name(), "ops": crate::ops::ops_json(&ops[ops.len().saturating_sub(300)..])});
            for i in 1..outs.len() {
                if outs[i] != outs[0] && outs[i].logical() == outs[0].logical() {
                    // the statement lists positions, eviction counts and errors, not byte counts
                    // (they do differ between instances: GC writes the position records of
                    // the empty queues in HashMap iteration order, which shifts padding)
                    acc.count("calls_whose_wal_bytes_written_differed_across_policies_(not_a_C14_subject)");
                }
                if outs[i].logical() != outs[0].logical() {
                    acc.violation(
                        format!("C14/outcome-differs/{}/{}-vs-{}", op.kind(), ALL_POLICIES[0].name(), ALL_POLICIES[i].name()),
                        case,
                        json!({"history": hist(), "call": op.to_json(), "outcomes": outs.iter().zip(ALL_POLICIES.iter()).map(|(o, p)| format!("{}: {:?}", p.name(), o)).collect::<Vec<_>>()}),
                    );
                    return;
                }
            }
            let snaps: Vec<Snapshot> = match suts.iter().map(|s| Snapshot::take(s.log())).collect::<Result<Vec<_>, _>>() {
                Ok(v) => v,
                Err(e) => {
                    acc.inconclusive(format!("snapshot failed (C05 territory): {}", e));
                    return;
                }
            };
            acc.eval();
            acc.count("calls_compared_across_policies");
            if matches!(op, Op::Restart) {
                acc.count("restarts_compared_across_policies");
            }
            for i in 1..snaps.len() {
                if let Some(diff) = snaps[0].diff(&snaps[i]) {
                    acc.violation(
                        format!("C14/state-differs/{}{}/{}-vs-{}", if matches!(op, Op::Restart) { "after-restart/" } else { "" }, op.kind(), ALL_POLICIES[0].name(), ALL_POLICIES[i].name()),
                        case,
                        json!({"history": hist(), "after_call": op.to_json(), "diff": diff}),
                    );
                    return;
                }
            }
            // Byte counts that differ between instances are legitimate only when a GC pass wrote
            // the position records of two or more empty queues (HashMap order, different
            // padding).  With fewer empty queues the call itself is still compared: the
            // streams had equal lengths when it began.
            let empty_queues = snaps[0].queues.values().filter(|q| q.recs.is_empty()).count();
            let counts_differ = outs.iter().any(|o| *o != outs[0]);
            if (counts_differ || matches!(op, Op::Restart)) && empty_queues >= 2 {
                same_stream_lengths = false;
            }
            if same_stream_lengths {
                let used: Vec<usize> = suts.iter().map(|s| s.log().resource_usage().disk_used_bytes).collect();
                acc.count("disk_usage_compared_across_policies");
                if let Some(i) = (1..used.len()).find(|i| used[*i] != used[0]) {
                    acc.violation(
                        format!("C14/disk-usage-differs/{}/{}-vs-{}", op.kind(), ALL_POLICIES[0].name(), ALL_POLICIES[i].name()),
                        case,
                        json!({"history": hist(), "after_call": op.to_json(), "disk_used_bytes": used.iter().zip(ALL_POLICIES.iter()).map(|(u, p)| format!("{}: {}", p.name(), u)).collect::<Vec<_>>(),
                               "note": "every call so far returned the same wal_bytes_written under every policy, so every instance appended the same number of bytes"}),
                    );
                    return;
                }
            }
            if counts_differ {
                same_stream_lengths = false;
            }
            if suts[0].log().resource_usage().disk_used_bytes as u64 > file_size {
                rolled = true;
            }
            if rolled {
                acc.distinct(hash_combine(snaps[0].digest(), k as u64));
            }
        }
        if rolled {
            acc.count("histories_with_rollover");
        }
        // reopen every directory under a different policy
        let reference = Snapshot::take(suts[0].log()).unwrap_or_default();
        let n = suts.len();
        for (i, s) in suts.iter_mut().enumerate() {
            let other: Policy = ALL_POLICIES[(i + 1 + rng.usize(0, n - 2)) % n];
            let from = s.policy;
            s.policy = other;
            if let Err(e) = s.reopen(9_999_999) {
                acc.violation(format!("C14/reopen-under-other-policy-failed/{}-then-{}/{:?}", from.name(), other.name(), e), case, json!({"ops": crate::ops::ops_json(&ops)}));
                return;
            }
            let snap = match Snapshot::take(s.log()) {
                Ok(x) => x,
                Err(e) => {
                    acc.inconclusive(format!("snapshot failed: {}", e));
                    return;
                }
            };
            acc.eval();
            acc.count("reopens_under_a_different_policy");
            if let Some(diff) = reference.diff(&snap) {
                acc.violation(
                    format!("C14/state-differs/after-reopen/written-under-{}-reopened-under-{}", from.name(), other.name()),
                    case,
                    json!({"ops": crate::ops::ops_json(&ops[ops.len().saturating_sub(300)..]), "diff": diff}),
                );
                return;
            }
        }
        acc.sample(|| json!({"case": case, "profile": profile.name(), "ops_excerpt": crate::ops::ops_json(&ops[..ops.len().min(10)]), "final_state": reference.to_json()}));
    }
}
