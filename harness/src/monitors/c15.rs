//! C15 -- wal_bytes_written equals the bytes actually appended to the WAL.
//! Reported values vs. bytes of write-family syscalls to WAL files in the call window.
//! DESIGN.md 4/C15.

use serde_json::json;

use super::common::{is_wal_name, Driver};
use crate::gen::Profile;
use crate::ops::{Op, Outcome, ALL_POLICIES};
use crate::runner::{Acc, Ctx, Monitor, Tier};
use crate::shim::Ev;
use crate::util::{hash_combine, Rng};

pub struct C15;

fn wal_write_bytes(evs: &[Ev]) -> (u64, u64) {
    let mut bytes = 0u64;
    let mut n = 0u64;
    for e in evs {
        if let Ev::Write { name, data, .. } = e {
            if is_wal_name(name) {
                bytes += data.len() as u64;
                n += 1;
            }
        }
    }
    (bytes, n)
}

impl Monitor for C15 {
    fn id(&self) -> &'static str {
        "C15"
    }
    fn level(&self) -> &'static str {
        "exploration"
    }
    fn num_cases(&self, tier: Tier) -> u64 {
        tier.pick(16_000, 400_000)
    }
    fn floors(&self, tier: Tier) -> Vec<(&'static str, u64)> {
        vec![
            ("calls_checked_exactly", tier.pick(50_000, 1_000_000)),
            ("cumulative_checks_under_lazy_policy", tier.pick(3_000, 60_000)),
            ("calls_with_end_of_block_padding", tier.pick(300, 6_000)),
            ("calls_with_gc_position_records", tier.pick(100, 2_000)),
            ("calls_spanning_a_rollover", tier.pick(3_000, 60_000)),
            ("calls_reporting_zero_with_empty_trace", tier.pick(5_000, 100_000)),
            ("calls_whose_gc_met_an_injected_unlink_failure", tier.pick(2_000, 40_000)),
            ("calls_whose_writes_were_served_short", tier.pick(20_000, 400_000)),
            ("calls_with_a_whole_block_write_served_short", tier.pick(1_000, 20_000)),
            ("calls_rolling_over_into_a_file_left_unsized", tier.pick(300, 6_000)),
        ]
    }
    fn rule(&self) -> String {
        "case = one generated history (align / gc / idle / bigname / mixed profiles); under Always(Flush|FlushAndFsync) evaluation = one create/delete/append/truncate call whose reported wal_bytes_written must equal the summed length of write-family syscalls on WAL files inside the call's trace window (and be 0 exactly when there is none) - one truncate/delete call in five runs with the first unlink of its window failing with EACCES: if the call still returns Ok its count must be right (an Err is not a C15 subject), and one append in six with every write(2) of its window served short (half the bytes, no error); one restart in three finds the next WAL file created but not sized (crash shape), so that a later call rolls over into it; under lazy policies the running sum of reported bytes must equal the running sum of traced bytes at every point where the write buffer is known to be empty (after create_queue, delete_queue, explicit persist, and at shutdown); distinct_nontrivial = distinct (call kind, bytes left in block before the call, padding seen, files touched, GC records) tuples".into()
    }
    fn assumptions(&self) -> Vec<String> {
        vec![
            "bytes written by the GC pass of open() are not surfaced by the API and are excluded".into(),
            "padding and GC position records are recognised from the trace: a zero run at the end of a block before a frame header, and an unlink in the same window".into(),
        ]
    }
    fn run_case(&self, ctx: &Ctx, case: u64, acc: &mut Acc) {
        let parts = ctx.case_seed(case);
        let mut rng = Rng::from_parts(&parts);
        let profile = *rng.pick(&[Profile::Align, Profile::Align, Profile::Align, Profile::Gc, Profile::Gc, Profile::Idle, Profile::Idle, Profile::BigName, Profile::Mixed, Profile::Dense]);
        let policy = if rng.chance(2, 3) { if rng.chance(1, 2) { crate::ops::Policy::AlwaysFlush } else { crate::ops::Policy::AlwaysFsync } } else { *rng.pick(&ALL_POLICIES[..3]) };
        let nq = rng.usize(1, 6);
        let nops = rng.usize(40, 140);
        let dir = ctx.scratch.sub("c15");
        let key = parts[2] ^ parts[1].rotate_left(32);
        let mut d = match Driver::start(&dir, policy, key, &parts, profile, nq) {
            Ok(d) => d,
            Err(e) => {
                acc.inconclusive(format!("cannot open a fresh directory: {:?}", e));
                return;
            }
        };
        d.gen.cfg.restart_pm = 25;
        d.gen.cfg.persist_pm = 50;
        d.gen.cfg.bad_pm = 50;
        acc.count(&format!("histories_policy_{}", policy.name()));
        let exact = policy.always();
        let mut reported_sum = 0u64;
        let mut traced_sum = 0u64;
        let mut sampled = false;
        let mut fault_hit = false;
        let mut planted_unsized = false;
        for _ in 0..nops {
            let cursor_before = d.cursor;
            let op = d.gen.next_op(if exact { Some(d.cursor) } else { None });
            if matches!(op, Op::Restart) {
                // shutdown flushes what is buffered; the open's own GC bytes are not reported
                d.sut.close(d.ops.len() as u64);
                let evs = crate::shim::take_events(&dir);
                crate::shim::reset();
                traced_sum += wal_write_bytes(&evs).0;
                if !exact {
                    acc.eval();
                    acc.count("cumulative_checks_under_lazy_policy");
                    if reported_sum != traced_sum {
                        acc.violation(
                            "C15/cumulative-mismatch/at-shutdown",
                            case,
                            json!({"history": d.history_json(300), "sum_reported": reported_sum, "sum_traced": traced_sum, "policy": policy.name()}),
                        );
                        return;
                    }
                }
                // one restart in three finds the next WAL file created but not sized, as a crash
                // between its creation and its sizing leaves it: the call that later rolls over
                // into it must still report exactly the bytes it writes
                if exact && !fault_hit && rng.chance(1, 3) {
                    let newest = std::fs::read_dir(&dir).ok().and_then(|rd| rd.flatten().filter_map(|e| e.file_name().to_str().filter(|n| is_wal_name(n)).and_then(|n| n[4..].parse::<u64>().ok())).max());
                    if let Some(n) = newest {
                        if std::fs::write(dir.join(format!("wal-{:020}", n + 1)), b"").is_ok() {
                            acc.count("restarts_with_the_next_file_created_but_not_sized");
                            planted_unsized = true;
                        }
                    }
                }
                let st = d.apply(Op::Restart);
                if let Outcome::Err(e) = &st.outcome {
                    if fault_hit {
                        // a WAL file the GC pass failed to unlink stays behind, untracked: the
                        // next open may refuse the directory.  A history with a failed call is
                        // outside C01's "successful calls"; nothing here is a C15 subject.
                        acc.count("restarts_refused_after_an_injected_unlink_failure_(not_a_C15_subject)");
                        return;
                    }
                    acc.inconclusive(format!("restart failed (C01 territory): {:?}", e));
                    return;
                }
                reported_sum = 0;
                traced_sum = 0;
                continue;
            }
            // one call in five that may collect files meets a failing unlink: whatever the call
            // then returns, an Ok must still carry the bytes it wrote
            let unlink_fault = exact && matches!(op, Op::Truncate { .. } | Op::Delete { .. }) && rng.chance(1, 5);
            if unlink_fault {
                crate::shim::fault(crate::shim::CL_UNLINK, 1, libc::EACCES, false);
            }
            // one append in six meets a kernel that serves every write(2) short (half of what
            // was asked, no error): legal, and the bytes really written must still be counted
            let short_writes = exact && !unlink_fault && matches!(op, Op::Append { .. }) && rng.chance(1, 6);
            if short_writes {
                crate::shim::fault_short_writes(1);
            }
            let st = d.apply(op);
            let unlink_failed = unlink_fault && st.events.iter().any(|e| matches!(e, Ev::Unlink { err, .. } if *err != 0));
            if unlink_failed {
                acc.count("calls_whose_gc_met_an_injected_unlink_failure");
                fault_hit = true;
            }
            if st.outcome.is_io_err() {
                if unlink_failed {
                    acc.count("calls_failed_by_the_injected_unlink_failure");
                    continue;
                }
                acc.inconclusive(format!("I/O error from a live call: {:?}", st.outcome));
                return;
            }
            let (traced, nwrites) = wal_write_bytes(&st.events);
            if short_writes && st.events.iter().any(|e| matches!(e, Ev::Write { data, req, .. } if (data.len() as u64) < *req)) {
                acc.count("calls_whose_writes_were_served_short");
                if st.events.iter().any(|e| matches!(e, Ev::Write { req, .. } if *req >= 32_768)) {
                    acc.count("calls_with_a_whole_block_write_served_short");
                }
            }
            let reported = st.outcome.bytes().unwrap_or(0);
            reported_sum += reported;
            traced_sum += traced;
            let has_unlink = st.events.iter().any(|e| matches!(e, Ev::Unlink { err: 0, .. }));
            let files: std::collections::BTreeSet<&String> = st.events.iter().filter_map(|e| if let Ev::Write { name, .. } = e { Some(name) } else { None }).collect();
            if exact && st.outcome.bytes().is_some() {
                acc.eval();
                acc.count("calls_checked_exactly");
                acc.count(&format!("calls_checked_{}", st.op.kind()));
                // padding: a frame cannot start with fewer than 7 bytes left in the block
                let rem = 32_768 - (cursor_before % 32_768);
                let padded = traced > 0 && rem < 7;
                if padded {
                    acc.count("calls_with_end_of_block_padding");
                    acc.count(&format!("padding_of_{}_bytes", rem));
                }
                // GC position records: bytes beyond what one entry of this call can need
                let gc_records = has_unlink && matches!(st.op, Op::Truncate { .. } | Op::Delete { .. }) && {
                    let name_len = st.op.queue().map(|q| q.len()).unwrap_or(0) as u64;
                    let one_entry_max = 11 + name_len + 7 * (2 + (11 + name_len) / 32_761) + 6;
                    reported > one_entry_max
                };
                if gc_records {
                    acc.count("calls_with_gc_position_records");
                }
                if files.len() >= 2 && planted_unsized {
                    acc.count("calls_rolling_over_into_a_file_left_unsized");
                    planted_unsized = false;
                }
                if files.len() >= 2 {
                    acc.count("calls_spanning_a_rollover");
                }
                if reported == 0 && nwrites == 0 {
                    acc.count("calls_reporting_zero_with_empty_trace");
                }
                acc.distinct(hash_combine(
                    hash_combine(crate::util::hash_str(st.op.kind()), if rem <= 64 { rem } else { 65 + rem / 2048 }),
                    hash_combine(files.len() as u64, (gc_records as u64) << 1 | padded as u64),
                ));
                if reported != traced {
                    acc.violation(
                        format!("C15/reported-{}-traced/{}{}{}{}", if reported < traced { "less-than" } else { "more-than" }, st.op.kind(), if padded { "/with-padding" } else { "" }, if has_unlink { "/with-gc" } else { "" }, if unlink_failed { "/unlink-failure-injected" } else if short_writes { "/writes-served-short" } else { "" }),
                        case,
                        json!({
                            "history": d.history_json(300), "call": st.op.to_json(), "outcome": st.outcome.to_json(),
                            "wal_bytes_written_reported": reported, "bytes_written_to_wal_files_in_the_call_window": traced,
                            "write_events": st.events.iter().filter(|e| matches!(e, Ev::Write { .. } | Ev::Unlink { .. })).map(|e| e.brief()).collect::<Vec<_>>(),
                            "cursor_before_call": cursor_before,
                        }),
                    );
                    return;
                }
                if !sampled && traced > 0 {
                    sampled = true;
                    acc.sample(|| json!({"case": case, "policy": policy.name(), "call": st.op.to_json(), "reported": reported, "traced": traced, "write_events": st.events.iter().filter(|e| matches!(e, Ev::Write { .. })).map(|e| e.brief()).collect::<Vec<_>>()}));
                }
            }
            if !exact {
                // buffer known to be empty after these calls
                let drained = matches!((&st.op, &st.outcome), (Op::Create { .. }, Outcome::Created { .. }) | (Op::Delete { .. }, Outcome::Deleted { .. }) | (Op::Persist { .. }, Outcome::Persisted));
                if drained {
                    acc.eval();
                    acc.count("cumulative_checks_under_lazy_policy");
                    if reported_sum != traced_sum {
                        acc.violation(
                            format!("C15/cumulative-mismatch/after-{}", st.op.kind()),
                            case,
                            json!({"history": d.history_json(300), "sum_reported_since_last_check": reported_sum, "sum_traced_since_last_check": traced_sum, "policy": policy.name()}),
                        );
                        return;
                    }
                    reported_sum = 0;
                    traced_sum = 0;
                }
            }
        }
    }
}
