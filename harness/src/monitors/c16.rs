//! C16 -- memory accounting tracks retained data and is released by truncation.
//! DESIGN.md 4/C16.

use serde_json::json;

use super::common::Driver;
use crate::gen::Profile;
use crate::ops::{Op, Outcome, Snapshot, ALL_POLICIES};
use crate::runner::{Acc, Ctx, Monitor, Tier, DEV_BASE};
use crate::util::{hash_combine, Rng};

pub struct C16;

/// "a small constant per retained record": generous upper bound (the implementation's
/// per-record bookkeeping is 24 bytes).
const SLACK: u64 = 64;

impl Monitor for C16 {
    fn id(&self) -> &'static str {
        "C16"
    }
    fn level(&self) -> &'static str {
        "exploration"
    }
    fn num_cases(&self, tier: Tier) -> u64 {
        tier.pick(9_600, 240_000)
    }
    fn num_dev_cases(&self, tier: Tier) -> u64 {
        tier.pick(80, 2_000)
    }
    fn floors(&self, tier: Tier) -> Vec<(&'static str, u64)> {
        vec![
            ("calls_checked", tier.pick(100_000, 2_000_000)),
            ("truncations_that_evicted_checked", tier.pick(10_000, 200_000)),
            ("states_with_every_queue_empty_checked", tier.pick(5_000, 100_000)),
            ("states_with_over_100KiB_retained", tier.pick(10_000, 200_000)),
        ]
    }
    fn rule(&self) -> String {
        "case = one generated history with payloads from 0 to several hundred KiB; evaluation = one call after which resource_usage() is read and compared with quantities computed from the observed snapshot (and, for the upper bound, also from the sequential specification of C05 run alongside, so that records wrongly kept are not counted in the library's favour): P = retained payload bytes, N = queue-name bytes, R = retained records; asserted: P+N <= used <= P+N+64R and used <= P+N+cR where c is the per-record overhead measured on a trivial 10-record state of the same build, used <= allocated, a truncation that evicted e records of E bytes lowers `used` by between E + c*e and E+64e, and with every queue empty N <= used <= N+64*queues; distinct_nontrivial = distinct (P, N, R) triples with R >= 2".into()
    }
    fn assumptions(&self) -> Vec<String> {
        vec!["'small constant per retained record' is taken as <= 64 bytes (the statement gives no number; the implementation's is 24)".into()]
    }
    fn run_case(&self, ctx: &Ctx, case: u64, acc: &mut Acc) {
        let parts = ctx.case_seed(case);
        let mut rng = Rng::from_parts(&parts);
        let profile = *rng.pick(&[Profile::Mixed, Profile::Mixed, Profile::Gc, Profile::Gc, Profile::Huge, Profile::Dense, Profile::Idle, Profile::Delete, Profile::BigName]);
        let policy = *rng.pick(&ALL_POLICIES);
        let nq = rng.usize(1, 5);
        let nops = rng.usize(40, 140);
        let dir = ctx.scratch.sub("c16");
        let key = parts[2] ^ parts[1].rotate_left(32);
        let mut d = match Driver::start(&dir, policy, key, &parts, profile, nq) {
            Ok(d) => d,
            Err(e) => {
                acc.inconclusive(format!("cannot open a fresh directory: {:?}", e));
                return;
            }
        };
        d.gen.cfg.restart_pm = 25;
        if case >= DEV_BASE {
            acc.count("histories_dev_profile_build");
        }
        let measure = |s: &Snapshot| -> (u64, u64, u64) {
            let p: u64 = s.queues.values().map(|q| q.recs.iter().map(|r| r.len as u64).sum::<u64>()).sum();
            let n: u64 = s.queues.keys().map(|k| k.len() as u64).sum();
            let r: u64 = s.queues.values().map(|q| q.recs.len() as u64).sum();
            (p, n, r)
        };
        // calibrate the per-record constant on a trivial state of this very build: a scratch
        // log with one queue holding 10 small records (no truncation, no gaps)
        let per_record = {
            let cdir = ctx.scratch.sub("c16-calib");
            match crate::ops::Sut::open(&cdir, crate::ops::Policy::AlwaysFlush, 7, false) {
                Ok(mut s) => {
                    let _ = s.apply(0, &Op::Create { q: "c".into() });
                    for k in 1..=10 {
                        let _ = s.apply(k, &Op::Append { q: "c".into(), pos: None, lens: vec![10], chained: false });
                    }
                    let used = s.log().resource_usage().memory_used_bytes as u64;
                    ((used.saturating_sub(1 + 100)) + 9) / 10
                }
                Err(_) => SLACK,
            }
        };
        if per_record == 0 || per_record > SLACK {
            acc.violation("C16/per-record-overhead-above-64-bytes-in-a-trivial-state", case, json!({"calibrated_per_record_overhead": per_record}));
            return;
        }
        acc.max("max_calibrated_per_record_overhead_bytes", per_record);
        let mut prev_snap = Snapshot::default();
        let mut model = crate::ops::Model::new(key);
        let mut prev_used = d.sut.log().resource_usage().memory_used_bytes as u64;
        let mut sampled = false;
        // one history in three starts with a scripted prelude on a queue of its own: a first
        // record with an EMPTY payload, a second record, a truncation of the first
        let mut script: std::collections::VecDeque<Op> = std::collections::VecDeque::new();
        if rng.chance(1, 3) {
            let q = "first-record-empty".to_string();
            script.push_back(Op::Create { q: q.clone() });
            script.push_back(Op::Append { q: q.clone(), pos: None, lens: vec![0], chained: false });
            let second = if rng.chance(1, 2) { None } else { Some(rng.usize(2, 9) as u64) };
            script.push_back(Op::Append { q: q.clone(), pos: second, lens: vec![rng.usize(1, 300)], chained: false });
            script.push_back(Op::Truncate { q: q.clone(), pos: 0 });
            script.push_back(Op::Append { q, pos: None, lens: vec![rng.usize(0, 50)], chained: false });
            acc.count("histories_starting_with_an_empty_first_record");
        }
        for _ in 0..nops {
            let st = match script.pop_front() {
                Some(op) => {
                    d.gen.note_external(&op);
                    d.apply(op)
                }
                None => d.step(),
            };
            if st.outcome.is_io_err() {
                acc.inconclusive(format!("I/O error from a live call: {:?}", st.outcome));
                return;
            }
            if matches!((&st.op, &st.outcome), (Op::Restart, Outcome::Err(_))) {
                acc.inconclusive("restart failed (C01 territory)".to_string());
                return;
            }
            // what the sequential specification (C05's model) retains after this call
            model.apply(st.k, &st.op);
            let snap = match Snapshot::take(d.sut.log()) {
                Ok(s) => s,
                Err(e) => {
                    acc.inconclusive(format!("snapshot failed (C05 territory): {}", e));
                    return;
                }
            };
            let ru = d.sut.log().resource_usage();
            let used = ru.memory_used_bytes as u64;
            let alloc = ru.memory_allocated_bytes as u64;
            let (p, n, r) = measure(&snap);
            acc.eval();
            acc.count("calls_checked");
            if r >= 2 {
                acc.distinct(hash_combine(hash_combine(p, n), r));
            }
            if p > 100 * 1024 {
                acc.count("states_with_over_100KiB_retained");
            }
            let detail = |what: &str| {
                json!({
                    "history": d.history_json(300), "after_call": st.op.to_json(), "violated": what,
                    "memory_used_bytes": used, "memory_allocated_bytes": alloc,
                    "retained_payload_bytes": p, "queue_name_bytes": n, "retained_records": r, "queues": snap.queues.len(),
                })
            };
            if used < p + n {
                acc.violation(format!("C16/used-below-retained-data/after-{}", st.op.kind()), case, detail("memory_used_bytes >= payload + names"));
                return;
            }
            if used > p + n + SLACK * r {
                acc.violation(format!("C16/used-exceeds-retained-data-plus-slack/after-{}", st.op.kind()), case, detail("memory_used_bytes <= payload + names + 64 per record"));
                return;
            }
            // the constant observed in a trivial state of the same build must also bound every
            // other state (a record that is not retained must not be paid for)
            if used > p + n + per_record * r {
                acc.violation(
                    format!("C16/used-exceeds-retained-data-plus-calibrated-per-record-overhead/after-{}", st.op.kind()),
                    case,
                    json!({"history": d.history_json(300), "after_call": st.op.to_json(), "memory_used_bytes": used, "retained_payload_bytes": p, "queue_name_bytes": n, "retained_records": r, "calibrated_per_record_overhead": per_record, "excess_bytes": used - (p + n + per_record * r)}),
                );
                return;
            }
            if used > alloc {
                acc.violation(format!("C16/used-exceeds-allocated/after-{}", st.op.kind()), case, detail("memory_used_bytes <= memory_allocated_bytes"));
                return;
            }
            // the same upper bound against what SHOULD be retained (sequential specification),
            // so that records the library failed to evict are not counted in its favour
            let (pm, nm, rm) = measure(&model.snapshot());
            if used > pm + nm + SLACK * rm.max(snap.queues.len() as u64) {
                acc.violation(
                    format!("C16/used-exceeds-what-the-specification-retains/after-{}", st.op.kind()),
                    case,
                    json!({"history": d.history_json(300), "after_call": st.op.to_json(), "memory_used_bytes": used, "specified_retained_payload_bytes": pm, "queue_name_bytes": nm, "specified_retained_records": rm, "observed_retained_payload_bytes": p, "observed_retained_records": r, "observed_vs_specified_state": model.snapshot().diff(&snap), "outcome": st.outcome.to_json()}),
                );
                return;
            }
            // ... and at the overhead calibrated on this build: one record the specification
            // does not retain (24 bytes of bookkeeping, no payload) must not hide in the slack
            if used > pm + nm + per_record * rm {
                acc.violation(
                    format!("C16/used-exceeds-what-the-specification-retains-at-the-calibrated-overhead/after-{}", st.op.kind()),
                    case,
                    json!({"history": d.history_json(300), "after_call": st.op.to_json(), "memory_used_bytes": used, "specified_retained_payload_bytes": pm, "queue_name_bytes": nm, "specified_retained_records": rm, "calibrated_per_record_overhead": per_record, "observed_retained_records": r, "observed_vs_specified_state": model.snapshot().diff(&snap), "outcome": st.outcome.to_json()}),
                );
                return;
            }
            if r == 0 {
                acc.count("states_with_every_queue_empty_checked");
                if used > n + SLACK * snap.queues.len() as u64 {
                    acc.violation(format!("C16/not-back-to-names-only-baseline/after-{}", st.op.kind()), case, detail("with every queue empty: used <= names + 64 per queue"));
                    return;
                }
            }
            if let (Op::Truncate { q, .. }, Outcome::Truncated { evicted, .. }) = (&st.op, &st.outcome) {
                if *evicted > 0 {
                    // bytes evicted, from the two snapshots
                    let before_q = prev_snap.queues.get(q);
                    let after_q = snap.queues.get(q);
                    let eb: u64 = before_q.map(|b| b.recs.iter().filter(|x| after_q.map(|a| a.recs.binary_search_by_key(&x.pos, |y| y.pos).is_err()).unwrap_or(true)).map(|x| x.len as u64).sum()).unwrap_or(0);
                    let drop = prev_used.saturating_sub(used);
                    acc.count("truncations_that_evicted_checked");
                    // an evicted record must give back at least what a record costs in a trivial
                    // state of the same build (its payload bytes + the calibrated overhead)
                    if drop < eb + per_record * (*evicted as u64) {
                        acc.violation(
                            "C16/truncation-released-less-than-the-evicted-records-cost",
                            case,
                            json!({"history": d.history_json(300), "call": st.op.to_json(), "evicted_records": evicted, "evicted_payload_bytes": eb, "calibrated_per_record_overhead": per_record, "used_before": prev_used, "used_after": used, "released": drop}),
                        );
                        return;
                    }
                    if drop < eb || drop > eb + SLACK * (*evicted as u64) {
                        acc.violation(
                            "C16/truncation-did-not-release-what-it-evicted",
                            case,
                            json!({"history": d.history_json(300), "call": st.op.to_json(), "evicted_records": evicted, "evicted_payload_bytes": eb, "used_before": prev_used, "used_after": used}),
                        );
                        return;
                    }
                }
            }
            if !sampled && r > 3 {
                sampled = true;
                acc.sample(|| json!({"case": case, "after_call": st.op.to_json(), "memory_used_bytes": used, "memory_allocated_bytes": alloc, "retained_payload_bytes": p, "queue_name_bytes": n, "retained_records": r}));
            }
            prev_snap = snap;
            prev_used = used;
        }
    }
}
