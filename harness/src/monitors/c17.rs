//! C17 -- only `wal-<20 digits>` files are ever read, created or deleted.
//! Path filter on the syscall trace + content hashes of foreign entries + differential
//! against the same history on a clean directory.  DESIGN.md 4/C17.

use std::collections::BTreeMap;
use std::path::Path;

use serde_json::json;

use super::common::{is_wal_name, list_wal_files, wal_number, Driver};
use crate::gen::Profile;
use crate::ops::{Op, Policy, Snapshot, Sut};
use crate::runner::{Acc, Ctx, Monitor, Tier};
use crate::shim::Ev;
use crate::util::{hash_bytes, hash_combine, hash_str, Rng};

pub struct C17;

#[derive(Clone, Debug, PartialEq, Eq)]
enum Foreign {
    File { len: u64, hash: u64 },
    Dir,
    Symlink { target: String },
}

fn near_miss_names(rng: &mut Rng) -> Vec<String> {
    let mut v: Vec<String> = vec![
        "wal-0000000000000000001".into(),    // 19 digits
        "wal-000000000000000000011".into(),  // 21 digits
        "wal-0000000000000000000a".into(),
        "wal-0000000000000000000 ".into(),
        "wal-+0000000000000000001".into(),
        "wal--0000000000000000001".into(),
        "WAL-00000000000000000001".into(),
        "Wal-00000000000000000002".into(),
        "wal_00000000000000000001".into(),
        "wal-99999999999999999999".into(),   // does not fit u64
        "wal-18446744073709551616".into(),   // u64::MAX + 1
        ".wal-00000000000000000001".into(),
        "wal-00000000000000000001\n".into(),
        "wal-00000000000000000001.bak".into(),
        "xwal-0000000000000000001".into(),   // 24 bytes, wrong prefix
        // 24 BYTES with non-ASCII digits: 'wal-' + 10 two-byte Arabic-Indic digits
        "wal-\u{0661}\u{0662}\u{0663}\u{0664}\u{0665}\u{0666}\u{0667}\u{0668}\u{0669}\u{0660}".into(),
        // 20 full-width digits (60 bytes)
        format!("wal-{}", "\u{ff10}".repeat(20)),
        // 24 BYTES, valid UTF-8, with a multi-byte character lying across byte offset 4
        "wal\u{e9}0000000000000000001".into(),      // 2-byte char at bytes 3..5
        "wa\u{8a9e}0000000000000000002".into(),     // 3-byte char at bytes 2..5
        "w\u{1F980}0000000000000000003".into(),     // 4-byte char at bytes 1..5
        "\u{65e5}\u{672c}\u{8a9e}\u{306e}\u{30e1}\u{30e2}01.txt".into(), // six 3-byte chars + 6 ASCII
        "readme.txt".into(),
        "lock".into(),
        "wal-".into(),
        "wal".into(),
    ];
    for i in 0..rng.usize(0, 3) {
        v.push(format!("wal-{:019}x", i));
    }
    v
}

fn foreign_state(dir: &Path, names: &[String]) -> BTreeMap<String, Option<Foreign>> {
    let mut m = BTreeMap::new();
    for n in names {
        let p = dir.join(n);
        let st = match std::fs::symlink_metadata(&p) {
            Err(_) => None,
            Ok(md) => {
                if md.file_type().is_symlink() {
                    Some(Foreign::Symlink { target: std::fs::read_link(&p).map(|t| t.to_string_lossy().into_owned()).unwrap_or_default() })
                } else if md.is_dir() {
                    Some(Foreign::Dir)
                } else {
                    let data = std::fs::read(&p).unwrap_or_default();
                    Some(Foreign::File { len: data.len() as u64, hash: hash_bytes(&data) })
                }
            }
        };
        m.insert(n.clone(), st);
    }
    m
}

impl Monitor for C17 {
    fn id(&self) -> &'static str {
        "C17"
    }
    fn level(&self) -> &'static str {
        "exploration"
    }
    fn num_cases(&self, tier: Tier) -> u64 {
        tier.pick(3_200, 80_000)
    }
    fn floors(&self, tier: Tier) -> Vec<(&'static str, u64)> {
        vec![
            ("path_events_checked", tier.pick(200_000, 4_000_000)),
            ("foreign_entries_verified_untouched", tier.pick(15_000, 300_000)),
            ("directory_scans_with_foreign_entries", tier.pick(3_000, 60_000)),
            ("wal_files_created_next_to_foreign_entries", tier.pick(5_000, 100_000)),
            ("wal_files_unlinked_next_to_foreign_entries", tier.pick(4_000, 80_000)),
            ("foreign_dirs_or_symlinks_named_like_wal_files", tier.pick(300, 6_000)),
            ("renumberings_with_gaps_survived", tier.pick(300, 6_000)),
            ("calls_compared_with_clean_twin", tier.pick(40_000, 800_000)),
            ("squatter_cases_entry_untouched", tier.pick(200, 5_000)),
            ("non_utf8_directory_cases_sibling_untouched", tier.pick(60, 1_500)),
            ("non_utf8_named_foreign_files_newer_than_live_wal_files", tier.pick(1_000, 20_000)),
            ("foreign_sockets_named_like_wal_files", tier.pick(1_000, 20_000)),
        ]
    }
    fn rule(&self) -> String {
        "case = one generated roll-over/GC-heavy history run on a directory seeded (before the first open and again between restarts) with foreign entries: near-miss names (19/21 digits, non-digit, other case/prefix, number not fitting u64, non-ASCII digits with a 24-byte name, 24-byte names with a multi-byte character across byte 4, names that are not valid UTF-8 (also created after the live WAL files), trailing newline, dot-prefixed), ordinary files, and sub-directories / symlinks (to a WAL file, dangling) / a unix socket named exactly like WAL files with numbers outside the live range; at some restarts the valid WAL files are renumbered with gaps; evaluation = one traced path-carrying syscall (open/create/read/write/ftruncate/unlink/rename) whose basename must match ^wal-[0-9]{20}$ and refer to a regular file (the directory itself may be opened read-only), or one foreign entry re-verified (type, size, content hash, link target) or one call compared with a twin log running the same history on a clean directory; one case in 32 runs a roll-over/GC history in a directory whose own path is not valid UTF-8, next to a sibling directory named like its lossy rendering and holding files named like WAL files (they must stay untouched); one case in eight is a 'squatter' scenario: a symlink to a file (one in four: an empty file) outside the directory / a dangling symlink / a sub-directory sits exactly at the next file name the library will create; failed appends are retried and everything is truncated at the end (a GC pass); calls may fail with an I/O error but nothing may be written through, created, replaced or removed; distinct_nontrivial = distinct (foreign name, syscall kind it coexisted with) pairs and distinct path-event kinds x file numbers".into()
    }
    fn assumptions(&self) -> Vec<String> {
        vec!["sub-directories / symlinks named exactly like WAL files are only placed at numbers the log will never create (below the oldest live file or above 2^40): a name collision with a future file makes create fail with an I/O error, which the statement does not forbid".into()]
    }
    fn run_case(&self, ctx: &Ctx, case: u64, acc: &mut Acc) {
        if case % 32 == 31 {
            return non_utf8_directory_case(ctx, case, acc);
        }
        if case % 8 == 7 {
            return squatter_case(ctx, case, acc);
        }
        let parts = ctx.case_seed(case);
        let mut rng = Rng::from_parts(&parts);
        let profile = *rng.pick(&[Profile::Gc, Profile::Gc, Profile::Gc, Profile::Idle, Profile::Mixed, Profile::Huge]);
        let policy = if rng.chance(1, 2) { Policy::AlwaysFlush } else { *rng.pick(&crate::ops::ALL_POLICIES) };
        let nq = rng.usize(1, 4);
        let nops = rng.usize(40, 120);
        let dir = ctx.scratch.sub("c17");
        let twin_dir = ctx.scratch.sub("c17-twin");
        let key = parts[2] ^ parts[1].rotate_left(32);
        // seed before the first open
        let mut foreign_names: Vec<String> = Vec::new();
        for n in near_miss_names(&mut rng) {
            if rng.chance(2, 3) {
                let mut data = vec![0u8; rng.usize(0, 70_000)];
                rng.fill(&mut data);
                if std::fs::write(dir.join(&n), &data).is_ok() {
                    foreign_names.push(n);
                }
            }
        }
        // a name that is not valid UTF-8 (24 bytes, 'wal-' + 0xff + 19 digits)
        {
            use std::os::unix::ffi::OsStrExt;
            let mut raw = b"wal-".to_vec();
            raw.push(0xff);
            raw.extend_from_slice(b"0000000000000000001");
            let p = dir.join(std::ffi::OsStr::from_bytes(&raw));
            if std::fs::write(&p, b"not utf-8 named").is_ok() {
                acc.count("non_utf8_named_foreign_files");
            }
        }
        // far-above names: never reached by rolling
        let far = (1u64 << 40) + rng.below(1000);
        let far_dir = format!("wal-{:020}", far);
        let far_link = format!("wal-{:020}", far + 1);
        let far_dangling = format!("wal-{:020}", far + 2);
        if std::fs::create_dir(dir.join(&far_dir)).is_ok() {
            let _ = std::fs::write(dir.join(&far_dir).join("wal-00000000000000000000"), b"inside a sub-directory");
            foreign_names.push(far_dir.clone());
            acc.count("foreign_dirs_or_symlinks_named_like_wal_files");
        }
        if std::os::unix::fs::symlink("readme.txt", dir.join(&far_link)).is_ok() {
            foreign_names.push(far_link.clone());
            acc.count("foreign_dirs_or_symlinks_named_like_wal_files");
        }
        if std::os::unix::fs::symlink("/nonexistent/target", dir.join(&far_dangling)).is_ok() {
            foreign_names.push(far_dangling.clone());
            acc.count("foreign_dirs_or_symlinks_named_like_wal_files");
        }
        // a unix socket named like a WAL file (neither a regular file, nor a directory, nor a
        // symlink); kept alive for the whole case
        let far_socket = format!("wal-{:020}", far + 3);
        let _socket_guard = std::os::unix::net::UnixListener::bind(dir.join(&far_socket)).ok();
        if _socket_guard.is_some() {
            foreign_names.push(far_socket.clone());
            acc.count("foreign_sockets_named_like_wal_files");
        }
        let mut expected = foreign_state(&dir, &foreign_names);

        let mut d = match Driver::start(&dir, policy, key, &parts, profile, nq) {
            Ok(d) => d,
            Err(e) => {
                acc.violation(format!("C17/open-failed-next-to-foreign-entries/{:?}", e), case, json!({"foreign_entries": foreign_names}));
                return;
            }
        };
        d.gen.cfg.restart_pm = 60;
        d.gen.cfg.bad_pm = 10;
        let mut twin = match Sut::open(&twin_dir, policy, key, false) {
            Ok(s) => s,
            Err(e) => {
                acc.inconclusive(format!("cannot open the clean twin: {:?}", e));
                return;
            }
        };
        let mut sampled = false;
        // check the events of a step against the path filter
        let check_events = |evs: &[Ev], foreign: &[String], acc: &mut Acc, dir: &Path| -> Result<(), (String, serde_json::Value)> {
            let mut saw_readdir_foreign = false;
            for e in evs {
                let (kind, name): (&str, &String) = match e {
                    Ev::Open { name, flags, .. } => (if flags & (libc::O_CREAT as u32) != 0 { "create" } else { "open" }, name),
                    Ev::Read { name, .. } => ("read", name),
                    Ev::Write { name, .. } => ("write", name),
                    Ev::Ftruncate { name, .. } => ("ftruncate", name),
                    Ev::Unlink { name, .. } => ("unlink", name),
                    Ev::Rename { from, .. } => ("rename", from),
                    Ev::Mkdir { name } => ("mkdir", name),
                    Ev::Rmdir { name } => ("rmdir", name),
                    Ev::Unmodelled { what, name } => {
                        return Err(("unexpected-file-system-call".into(), json!({"call": what, "path": name})));
                    }
                    Ev::ReadDir { entry: Some(n), .. } => {
                        if foreign.contains(n) {
                            saw_readdir_foreign = true;
                        }
                        continue;
                    }
                    _ => continue,
                };
                acc.eval();
                acc.count("path_events_checked");
                acc.count(&format!("path_events_{}", kind));
                if name == "." {
                    // the directory itself: read-only open for fsync is fine
                    if kind == "open" {
                        if let Ev::Open { flags, .. } = e {
                            if flags & (libc::O_WRONLY | libc::O_RDWR) as u32 == 0 {
                                continue;
                            }
                        }
                    }
                    return Err(("directory-itself-modified".into(), json!({"event": e.brief()})));
                }
                if !is_wal_name(name) {
                    return Err((format!("{}-of-non-wal-name", kind), json!({"event": e.brief(), "name": name})));
                }
                if foreign.contains(name) {
                    return Err((format!("{}-of-foreign-entry-named-like-wal-file", kind), json!({"event": e.brief(), "name": name})));
                }
                if matches!(kind, "open" | "create") {
                    if let Ev::Open { err: 0, .. } = e {
                        let md = std::fs::symlink_metadata(dir.join(name));
                        if let Ok(md) = md {
                            if !md.file_type().is_file() {
                                return Err(("opened-a-non-regular-file".into(), json!({"event": e.brief()})));
                            }
                        }
                    }
                }
                if let Some(n) = wal_number(name) {
                    acc.distinct(hash_combine(hash_str(kind), n));
                }
            }
            if saw_readdir_foreign {
                acc.count("directory_scans_with_foreign_entries");
            }
            Ok(())
        };
        // the initial open's events were consumed by Driver::start; re-verify state instead
        for i in 0..nops {
            let creates_before = d.io.creates;
            let unlinks_before = d.io.unlinks;
            let st = if i + 1 == nops { d.apply(Op::Restart) } else { d.step() };
            if st.outcome.is_io_err() {
                acc.inconclusive(format!("I/O error from a live call: {:?}", st.outcome));
                return;
            }
            acc.add("wal_files_created_next_to_foreign_entries", d.io.creates - creates_before);
            acc.add("wal_files_unlinked_next_to_foreign_entries", d.io.unlinks - unlinks_before);
            if let Err((what, detail)) = check_events(&st.events, &foreign_names, acc, &dir) {
                acc.violation(format!("C17/{}", what), case, json!({"history": d.history_json(200), "during_call": st.op.to_json(), "observation": detail, "foreign_entries": foreign_names}));
                return;
            }
            // the clean twin runs the same call
            let tout = twin.apply(st.k, &st.op);
            acc.count("calls_compared_with_clean_twin");
            if tout.logical() != st.outcome.logical() {
                acc.violation(
                    format!("C17/outcome-differs-from-clean-directory/{}", st.op.kind()),
                    case,
                    json!({"history": d.history_json(200), "call": st.op.to_json(), "with_foreign_entries": st.outcome.to_json(), "clean_directory": tout.to_json()}),
                );
                return;
            }
            let (a, b) = match (Snapshot::take(d.sut.log()), Snapshot::take(twin.log())) {
                (Ok(a), Ok(b)) => (a, b),
                _ => {
                    acc.inconclusive("snapshot failed".to_string());
                    return;
                }
            };
            if let Some(diff) = b.diff(&a) {
                acc.violation(
                    format!("C17/state-differs-from-clean-directory/{}/{}", st.op.kind(), super::common::diff_class(&b, &a)),
                    case,
                    json!({"history": d.history_json(200), "after_call": st.op.to_json(), "diff_clean_vs_seeded": diff, "foreign_entries": foreign_names}),
                );
                return;
            }
            // foreign entries untouched
            let now = foreign_state(&dir, &foreign_names);
            for (n, want) in &expected {
                acc.eval();
                acc.count("foreign_entries_verified_untouched");
                if now.get(n) != Some(want) {
                    acc.violation(
                        format!("C17/foreign-entry-changed/{}", if now.get(n).map(|x| x.is_none()).unwrap_or(true) { "deleted" } else { "modified" }),
                        case,
                        json!({"history": d.history_json(200), "during_call": st.op.to_json(), "entry": n, "before": format!("{:?}", want), "after": format!("{:?}", now.get(n))}),
                    );
                    return;
                }
                acc.distinct(hash_combine(hash_str(n), hash_str(st.op.kind())));
            }
            // between restarts: add more foreign entries, sometimes renumber with gaps
            if matches!(st.op, Op::Restart) && i + 1 < nops && rng.chance(1, 2) {
                let before = a.clone();
                d.sut.close(u64::MAX - 2);
                let evs = crate::shim::take_events(&dir);
                crate::shim::reset();
                if let Err((what, detail)) = check_events(&evs, &foreign_names, acc, &dir) {
                    acc.violation(format!("C17/{}", what), case, json!({"history": d.history_json(200), "during": "shutdown", "observation": detail}));
                    return;
                }
                let files = list_wal_files(&dir);
                let min = files.first().map(|f| f.0).unwrap_or(0);
                let mut shift = 0u64;
                if rng.chance(1, 2) && !files.is_empty() {
                    // renumber the valid files with gaps, preserving their order
                    // mostly small shifts; sometimes numbers with 20 significant digits
                    let mut newnum = if rng.chance(1, 6) { 10_000_000_000_000_000_000u64 + rng.below(1 << 40) } else { min + rng.range(1, 50) };
                    if newnum <= min {
                        newnum = min + 1;
                    }
                    shift = newnum;
                    let mut plan = Vec::new();
                    for (n, _) in &files {
                        plan.push((*n, newnum));
                        newnum += rng.range(1, 4);
                    }
                    // two-phase rename (the log is closed): targets may collide with sources
                    for (old, _) in plan.iter() {
                        let _ = std::fs::rename(dir.join(format!("wal-{:020}", old)), dir.join(format!("renumbering-tmp-{}", old)));
                    }
                    for (old, new) in plan.iter() {
                        let _ = std::fs::rename(dir.join(format!("renumbering-tmp-{}", old)), dir.join(format!("wal-{:020}", new)));
                    }
                    acc.count("renumberings_with_gaps");
                }
                // entries named like already-passed WAL files
                let below = if shift > 0 { shift } else { min };
                if below > 0 {
                    let nm = format!("wal-{:020}", rng.below(below));
                    if !foreign_names.contains(&nm) && !dir.join(&nm).exists() {
                        // a symlink to a LIVE WAL file: `metadata()` would call it a regular file
                        let live = list_wal_files(&dir).first().map(|f| format!("wal-{:020}", f.0));
                        let ok = match (rng.below(4), live) {
                            (0, _) => std::fs::create_dir(dir.join(&nm)).is_ok(),
                            (1, _) => std::os::unix::fs::symlink("lock", dir.join(&nm)).is_ok(),
                            (2, Some(target)) => std::os::unix::fs::symlink(target, dir.join(&nm)).is_ok(),
                            _ => std::os::unix::fs::symlink("/nonexistent/x", dir.join(&nm)).is_ok(),
                        };
                        if ok {
                            foreign_names.push(nm);
                            acc.count("foreign_dirs_or_symlinks_named_like_wal_files");
                        }
                    }
                }
                let extra = format!("note-{}.txt", i);
                if std::fs::write(dir.join(&extra), b"added between restarts").is_ok() {
                    foreign_names.push(extra);
                }
                // files whose names are not valid UTF-8, created AFTER the live WAL files (a
                // directory listing may return them before the WAL files)
                {
                    use std::os::unix::ffi::OsStrExt;
                    let raws: [Vec<u8>; 3] = [
                        { let mut r = b"wal-0000000000000000000".to_vec(); r.push(0xb0 + (i % 10) as u8); r },
                        format!("r\u{0}sum-{}", i).into_bytes().into_iter().map(|b| if b == 0 { 0xe9 } else { b }).collect(),
                        { let mut r = vec![0xff, 0xfe]; r.extend_from_slice(format!("-{}.bak", i).as_bytes()); r },
                    ];
                    for raw in raws.iter() {
                        if rng.chance(1, 2) && std::fs::write(dir.join(std::ffi::OsStr::from_bytes(raw)), b"not utf-8 named, added between restarts").is_ok() {
                            acc.count("non_utf8_named_foreign_files");
                            acc.count("non_utf8_named_foreign_files_newer_than_live_wal_files");
                        }
                    }
                    // and a 24-byte valid UTF-8 name with a multi-byte character across byte 4
                    let nm = format!("wa\u{8a9e}{:019}", i);
                    if !foreign_names.contains(&nm) && std::fs::write(dir.join(&nm), b"24-byte non-ascii name").is_ok() {
                        foreign_names.push(nm);
                    }
                }
                expected = foreign_state(&dir, &foreign_names);
                if let Err(e) = d.sut.reopen(u64::MAX - 3) {
                    acc.violation(format!("C17/open-failed-after-seeding-or-renumbering/{:?}", e), case, json!({"history": d.history_json(200), "renumbered_with_gaps": shift > 0, "foreign_entries": foreign_names}));
                    return;
                }
                let evs = crate::shim::take_events(&dir);
                crate::shim::reset();
                d.io.absorb(&evs);
                if let Err((what, detail)) = check_events(&evs, &foreign_names, acc, &dir) {
                    acc.violation(format!("C17/{}", what), case, json!({"history": d.history_json(200), "during": "open after seeding", "observation": detail, "foreign_entries": foreign_names}));
                    return;
                }
                let after = match Snapshot::take(d.sut.log()) {
                    Ok(s) => s,
                    Err(_) => {
                        acc.inconclusive("snapshot failed".to_string());
                        return;
                    }
                };
                if let Some(diff) = before.diff(&after) {
                    acc.violation(
                        format!("C17/state-changed-by-{}/{}", if shift > 0 { "renumbering-with-gaps" } else { "foreign-entries" }, super::common::diff_class(&before, &after)),
                        case,
                        json!({"history": d.history_json(200), "diff": diff, "wal_files_now": list_wal_files(&dir).iter().map(|f| f.0).collect::<Vec<_>>(), "foreign_entries": foreign_names}),
                    );
                    return;
                }
                if shift > 0 {
                    acc.count("renumberings_with_gaps_survived");
                }
            }
            if !sampled && i > 10 {
                sampled = true;
                acc.sample(|| json!({"case": case, "policy": policy.name(), "foreign_entries": foreign_names, "wal_files": list_wal_files(&dir).iter().map(|f| f.0).collect::<Vec<_>>(), "events_of_last_call": st.events.iter().take(12).map(|e| e.brief()).collect::<Vec<_>>()}));
            }
        }
    }
}

/// A foreign entry sits exactly where the library will want to create its NEXT file
/// (`wal-<current+1>`, or `wal-0` in an empty directory): a symlink to a file outside the WAL
/// directory, a dangling symlink, or a sub-directory.  The library may fail the call with an
/// I/O error (the statement does not forbid that) but it must not write through the symlink,
/// create its target, or touch the entry.
fn squatter_case(ctx: &Ctx, case: u64, acc: &mut Acc) {
    let parts = ctx.case_seed(case);
    let mut rng = Rng::from_parts(&parts);
    let dir = ctx.scratch.sub("c17-squat");
    let outside = ctx.scratch.sub("c17-outside");
    let key = parts[2];
    // one outside file in four is EMPTY: it looks like a WAL file left unsized by a crash
    let mut precious = vec![0u8; if rng.chance(1, 4) { 0 } else { rng.usize(10, 200_000) }];
    rng.fill(&mut precious);
    let precious_path = outside.join("precious.dat");
    std::fs::write(&precious_path, &precious).expect("write precious");
    let ghost_path = outside.join("does-not-exist.bin");
    let kind = rng.below(3);
    let at_first_file = rng.chance(1, 5);
    let n = if at_first_file { 0 } else { 1 + rng.below(2) };
    let name = format!("wal-{:020}", n);
    let ok = match kind {
        0 => std::os::unix::fs::symlink(&precious_path, dir.join(&name)).is_ok(),
        1 => std::os::unix::fs::symlink(&ghost_path, dir.join(&name)).is_ok(),
        _ => std::fs::create_dir(dir.join(&name)).is_ok(),
    };
    if !ok {
        acc.inconclusive("could not place the squatting entry".to_string());
        return;
    }
    let kind_name = ["symlink-to-outside-file", "dangling-symlink", "sub-directory"][kind as usize];
    acc.count("squatter_cases");
    acc.count(&format!("squatter_{}", kind_name));
    crate::shim::reset_all();
    crate::shim::set_root(&dir);
    let mut events: Vec<Ev> = Vec::new();
    let mut calls = Vec::new();
    let policy = if rng.chance(1, 2) { Policy::AlwaysFlush } else { Policy::DoNothing };
    match Sut::open(&dir, policy, key, true) {
        Err(e) => calls.push(format!("open -> {:?}", e)),
        Ok(mut sut) => {
            let q = "squat".to_string();
            let o = sut.apply(0, &Op::Create { q: q.clone() });
            calls.push(format!("create_queue -> {:?}", o));
            // an application retries a failed append: keep calling after the first I/O error
            let mut failures = 0;
            for k in 1..=12usize {
                let o = sut.apply(k, &Op::Append { q: q.clone(), pos: None, lens: vec![rng.usize(20_000, 60_000)], chained: false });
                calls.push(format!("append -> {:?}", o));
                if o.is_io_err() {
                    acc.count("squatter_calls_failing_with_io_error_(allowed)");
                    failures += 1;
                    if failures >= 3 {
                        break;
                    }
                    acc.count("squatter_retries_after_an_io_error");
                }
            }
            // then release everything: a GC pass must not reach for the squatting entry either
            let last = calls.iter().rev().find_map(|c| c.split("last: Some(").nth(1).and_then(|r| r.split(')').next()).and_then(|n| n.parse::<u64>().ok()));
            if let Some(p) = last {
                let o = sut.apply(50, &Op::Truncate { q: q.clone(), pos: p });
                calls.push(format!("truncate ..={} -> {:?}", p, o));
                let o = sut.apply(51, &Op::Append { q: q.clone(), pos: None, lens: vec![100], chained: false });
                calls.push(format!("append -> {:?}", o));
                acc.count("squatter_cases_followed_by_a_truncate_of_everything");
            }
            events.extend(crate::shim::take_events(&dir));
            sut.close(99);
        }
    }
    events.extend(crate::shim::take_events(&dir));
    crate::shim::reset_all();
    acc.eval();
    let detail = |what: &str| json!({"squatter": {"name": name, "kind": kind_name}, "calls": calls, "violated": what, "events_naming_it": events.iter().filter(|e| e.brief().contains(&name)).map(|e| e.brief()).collect::<Vec<_>>()});
    // the entry itself
    let md = std::fs::symlink_metadata(dir.join(&name));
    let still = match (&md, kind) {
        (Ok(m), 0) => m.file_type().is_symlink() && std::fs::read_link(dir.join(&name)).map(|t| t == precious_path).unwrap_or(false),
        (Ok(m), 1) => m.file_type().is_symlink() && std::fs::read_link(dir.join(&name)).map(|t| t == ghost_path).unwrap_or(false),
        (Ok(m), _) => m.is_dir(),
        _ => false,
    };
    if !still {
        acc.violation(format!("C17/squatting-entry-replaced-or-removed/{}", kind_name), case, detail("the foreign entry is gone or was replaced"));
        return;
    }
    if std::fs::read(&precious_path).map(|d| d != precious).unwrap_or(true) {
        acc.violation(format!("C17/wrote-through-symlink-into-foreign-file/{}", kind_name), case, detail("a file outside the WAL directory was modified"));
        return;
    }
    if ghost_path.exists() || std::fs::read_dir(&outside).map(|r| r.count()).unwrap_or(0) != 1 {
        acc.violation(format!("C17/created-a-file-that-is-not-a-wal-file/{}", kind_name), case, detail("a file was created outside the WAL naming scheme (through a dangling symlink)"));
        return;
    }
    // no successful open / write / truncate / unlink through the squatting name
    for e in &events {
        let bad = match e {
            Ev::Open { name: n2, err: 0, .. } | Ev::Ftruncate { name: n2, err: 0, .. } | Ev::Unlink { name: n2, err: 0, .. } => n2 == &name,
            Ev::Write { name: n2, data, .. } => n2 == &name && !data.is_empty(),
            _ => false,
        };
        if bad {
            acc.violation(format!("C17/used-the-squatting-entry-as-a-wal-file/{}", kind_name), case, detail(&format!("event: {}", e.brief())));
            return;
        }
    }
    acc.count("squatter_cases_entry_untouched");
    acc.sample(|| json!({"case": case, "scenario": "squatter", "name": name, "kind": kind_name, "calls": calls.iter().rev().take(3).collect::<Vec<_>>()}));
}

/// The WAL directory's own path contains a byte sequence that is not valid UTF-8, and a sibling
/// directory whose name is the lossy rendering of it (U+FFFD) holds files named like the WAL
/// files.  A roll-over / GC history must leave the sibling alone: every path the library
/// builds has to be derived from the directory it was given, byte for byte.
fn non_utf8_directory_case(ctx: &Ctx, case: u64, acc: &mut Acc) {
    use std::os::unix::ffi::OsStrExt;
    let parts = ctx.case_seed(case);
    let mut rng = Rng::from_parts(&parts);
    let base = ctx.scratch.sub("c17-nonutf8");
    let dir = base.join(std::ffi::OsStr::from_bytes(b"wal\xFFdir"));
    let sibling = base.join("wal\u{FFFD}dir");
    if std::fs::create_dir(&dir).is_err() || std::fs::create_dir(&sibling).is_err() {
        acc.inconclusive("the file system refuses a directory name that is not valid UTF-8".to_string());
        return;
    }
    let mut planted: Vec<(std::path::PathBuf, Vec<u8>)> = Vec::new();
    for n in 0..6u64 {
        let mut content = vec![0u8; rng.usize(10, 5_000)];
        rng.fill(&mut content);
        let p = sibling.join(format!("wal-{:020}", n));
        std::fs::write(&p, &content).expect("plant look-alike file");
        planted.push((p, content));
    }
    acc.count("non_utf8_directory_cases");
    let mut calls = Vec::new();
    let key = parts[2];
    let policy = if rng.chance(1, 2) { Policy::AlwaysFlush } else { Policy::DoNothing };
    match Sut::open(&dir, policy, key, false) {
        Err(e) => calls.push(format!("open -> {:?}", e)),
        Ok(mut sut) => {
            let q = "q".to_string();
            calls.push(format!("create_queue -> {:?}", sut.apply(0, &Op::Create { q: q.clone() })));
            let mut last = None;
            for k in 1..=rng.usize(5, 10) {
                let o = sut.apply(k, &Op::Append { q: q.clone(), pos: None, lens: vec![rng.usize(30_000, 60_000)], chained: false });
                if let crate::ops::Outcome::Appended { last: Some(p), .. } = &o {
                    last = Some(*p);
                }
                calls.push(format!("append -> {:?}", o));
            }
            if let Some(p) = last {
                // releases every file but the current one: a GC pass with unlinks
                calls.push(format!("truncate ..={} -> {:?}", p.saturating_sub(1), sut.apply(40, &Op::Truncate { q: q.clone(), pos: p.saturating_sub(1) })));
                calls.push(format!("append -> {:?}", sut.apply(41, &Op::Append { q: q.clone(), pos: None, lens: vec![100], chained: false })));
                let r = sut.apply(42, &Op::Restart);
                calls.push(format!("restart -> {:?}", r));
                if matches!(r, crate::ops::Outcome::Restarted) {
                    calls.push(format!("truncate ..={} -> {:?}", p + 1, sut.apply(43, &Op::Truncate { q: q.clone(), pos: p + 1 })));
                }
            }
            if calls.iter().any(|c| c.contains("Io(")) {
                acc.count("non_utf8_directory_cases_with_a_call_failing_with_an_io_error");
            }
            sut.close(99);
        }
    }
    acc.eval();
    for (p, content) in &planted {
        if std::fs::read(p).map(|d| &d != content).unwrap_or(true) {
            acc.violation(
                "C17/touched-a-file-outside-the-wal-directory/non-utf8-directory-path",
                case,
                json!({"wal_directory": "<scratch>/wal\\xFFdir", "sibling_directory": "<scratch>/wal\u{FFFD}dir", "file": p.file_name().map(|n| n.to_string_lossy().to_string()),
                       "calls": calls, "violated": "a file of a sibling directory (whose name is the lossy UTF-8 rendering of the WAL directory's) was removed or modified"}),
            );
            return;
        }
    }
    acc.count("non_utf8_directory_cases_sibling_untouched");
}
