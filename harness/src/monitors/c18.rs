//! C18 -- queues are isolated from one another.
//! Metamorphic and model-free: a history over k queues vs. its projection onto each queue,
//! live, across restarts, and after crash recovery.  DESIGN.md 4/C18.

use serde_json::json;

use super::c02::finish;
use super::crash::*;
use crate::gen::{Gen, GenCfg, Profile};
use crate::image::{windows, Builder};
use crate::ops::{short, Op, Policy, QSnap, Snapshot, Sut};
use crate::runner::{Acc, Ctx, Monitor, Tier};
use crate::shim::Ev;
use crate::util::{hash_combine, hash_str, Rng};

pub struct C18;

fn qstate(log: &mrecordlog::MultiRecordLog, q: &str) -> Result<Option<QSnap>, String> {
    if !log.queue_exists(q) {
        if log.range(q, ..).is_ok() || log.last_position(q).is_ok() {
            return Err("read accessors succeed on a queue that does not exist".into());
        }
        return Ok(None);
    }
    let s = Snapshot::take(log)?;
    Ok(s.queues.get(q).cloned())
}

impl Monitor for C18 {
    fn id(&self) -> &'static str {
        "C18"
    }
    fn level(&self) -> &'static str {
        "exploration"
    }
    fn num_cases(&self, tier: Tier) -> u64 {
        tier.pick(6_400, 160_000)
    }
    fn floors(&self, tier: Tier) -> Vec<(&'static str, u64)> {
        vec![
            ("projected_calls_compared", tier.pick(40_000, 1_000_000)),
            ("projected_restarts_compared", tier.pick(8_000, 200_000)),
            ("projections_run", tier.pick(2_000, 50_000)),
            ("histories_where_other_queues_gc_unlinked_files", tier.pick(300, 8_000)),
            ("crash_images_compared", tier.pick(10_000, 250_000)),
            ("crash_points_inside_calls_on_other_queues", tier.pick(5_000, 120_000)),
            ("queue_states_compared_after_crash", tier.pick(20_000, 500_000)),
            ("crash_continuations_run", tier.pick(5_000, 100_000)),
            ("ondelay_crash_images_checked_for_a_quiet_queue", tier.pick(300, 6_000)),
            ("queue_states_compared_after_power_loss", tier.pick(5_000, 120_000)),
        ]
    }
    fn rule(&self) -> String {
        "case = one generated history H over k = 2..6 queues (gc / idle / delete / mixed profiles, restarts) under Always(Flush), run once in full and once per queue q as the projection H|q (the calls addressed to q plus every restart and persist, with the same payload bytes) on a fresh directory; evaluation = one call on q (outcome and exists/range/last_position of q identical in both runs), one restart comparison, or one queue compared after recovering a crash image of the FULL run (effect boundaries and torn writes inside calls addressed to other queues, and between calls) with its state in the projected run at the corresponding point; on sampled crash points (all torn writes) the rest of the history is replayed on the recovered log, the log restarted, and the other queues compared with the end of the full run; one case in four re-runs a prefix of H under Always(FlushAndFsync) and recovers three power-loss images of the final call boundary (never-synced files absent / empty / zero-filled): every queue other than the one addressed last must be exactly as it was live; distinct_nontrivial = distinct (queue, its state digest, number of other-queue calls interleaved since its last call) among comparisons made after another queue's call unlinked a WAL file".into()
    }
    fn assumptions(&self) -> Vec<String> {
        vec!["crash leg: inside a call addressed to q itself the C02 tolerance applies and q is skipped; every other queue must be exactly as in its projection".into()]
    }
    fn run_case(&self, ctx: &Ctx, case: u64, acc: &mut Acc) {
        quiet_panics();
        let parts = ctx.case_seed(case);
        let mut rng = Rng::from_parts(&parts);
        let profile = *rng.pick(&[Profile::Gc, Profile::Gc, Profile::Idle, Profile::Idle, Profile::Delete, Profile::Delete, Profile::Mixed]);
        let k = rng.usize(2, 6);
        let nops = rng.usize(30, 90);
        let key = parts[2] ^ parts[1].rotate_left(32);
        let mut cfg = GenCfg::new(profile, k, 131_072);
        cfg.restart_pm = 50;
        cfg.persist_pm = 10;
        cfg.bad_pm = 40;
        let mut gen = Gen::new(&parts, cfg);
        let ops = gen.history(nops);
        let names = gen.names.clone();
        let full_dir = ctx.scratch.sub("c18-full");
        let full = match live_run_ops(&full_dir, Policy::AlwaysFlush, key, &ops) {
            Ok(r) => r,
            Err(e) if e.starts_with("live restart failed at op ") => {
                // The full history cannot be re-opened after a clean shutdown.  If the same
                // history projected onto one queue can, that queue became unavailable through
                // calls addressed to OTHER queues.
                let kfail: usize = e["live restart failed at op ".len()..].split(':').next().and_then(|s| s.parse().ok()).unwrap_or(0);
                let proj_dir = ctx.scratch.sub("c18-proj");
                for q in &names {
                    if !ops[..kfail].iter().any(|o| o.queue() == Some(q.as_str())) {
                        continue;
                    }
                    crate::util::clear_dir(&proj_dir);
                    let Ok(mut sut) = Sut::open(&proj_dir, Policy::AlwaysFlush, key, false) else { continue };
                    let mut ok = true;
                    for (i, op) in ops.iter().enumerate().take(kfail + 1) {
                        let mine = op.queue() == Some(q.as_str());
                        let global = matches!(op, Op::Restart | Op::Persist { .. });
                        if !mine && !global {
                            continue;
                        }
                        if let crate::ops::Outcome::Err(_) = sut.apply(i, op) {
                            if matches!(op, Op::Restart) {
                                ok = false;
                                break;
                            }
                        }
                    }
                    acc.eval();
                    if ok {
                        acc.violation(
                            "C18/restart-fails-in-the-full-history-but-not-in-the-projection",
                            case,
                            json!({"full_history": crate::ops::ops_json(&ops[..=kfail]), "full_run": e, "projected_onto": short(q), "projected_run": "every restart up to the same call succeeded"}),
                        );
                        return;
                    }
                }
                acc.inconclusive(format!("live run failed, in every projection too (C01 territory): {}", e));
                return;
            }
            Err(e) => {
                acc.inconclusive(format!("live run failed: {}", e));
                return;
            }
        };
        crate::util::clear_dir(&full_dir);
        // did a call on one queue unlink files?
        let wins = windows(&full.events);
        let mut unlink_by: Vec<Option<String>> = vec![None; ops.len()];
        for w in &wins {
            if w.id == u64::MAX {
                continue;
            }
            if (w.begin + 1..w.end).any(|i| matches!(&full.events[i], Ev::Unlink { err: 0, .. })) {
                unlink_by[w.id as usize] = ops[w.id as usize].queue().map(|s| s.to_string());
            }
        }
        if unlink_by.iter().any(|x| x.is_some()) {
            acc.count("histories_where_other_queues_gc_unlinked_files");
        }
        acc.count(&format!("histories_profile_{}", profile.name()));

        // ---- OnDelay leg (one case in four) ---------------------------------------------------
        // Under OnDelay(2 ms, Flush), queue B appends once and goes quiet while queue A keeps
        // appending every millisecond.  Alone, B's record would be flushed by B's next call
        // after the delay; with A around, one of A's calls falls after the deadline and flushes
        // it.  After 7 ms it must have reached the OS whatever A did: A's traffic must not keep
        // B's acknowledged record in the buffer.  (Sleeps are never shorter than asked, so
        // correct code cannot fail this; a loaded machine can only hide a defect.)
        if case % 4 == 1 {
            let ddir = ctx.scratch.sub("c18-delay");
            crate::util::clear_dir(&ddir);
            if let Ok(mut s) = Sut::open(&ddir, Policy::DelayShortFlush, key, false) {
                let (qa, qb) = ("delay-a".to_string(), "delay-b".to_string());
                let _ = s.apply(0, &Op::Create { q: qa.clone() });
                let _ = s.apply(5, &Op::Create { q: qb.clone() });
                let b0 = s.apply(10, &Op::Append { q: qb.clone(), pos: None, lens: vec![40], chained: false });
                for j in 0..7usize {
                    std::thread::sleep(std::time::Duration::from_millis(1));
                    let _ = s.apply(15 + 5 * j, &Op::Append { q: qa.clone(), pos: None, lens: vec![24], chained: false });
                }
                let img = crate::image::Image::from_dir(&ddir);
                let side = ctx.scratch.sub("c18-delay-rec");
                crate::util::clear_dir(&side);
                img.materialize(&side);
                acc.eval();
                acc.count("ondelay_crash_images_checked_for_a_quiet_queue");
                if let (crate::ops::Outcome::Appended { last: Some(p), .. }, Ok(rec)) = (b0.clone(), Sut::open(&side, Policy::AlwaysFlush, key, false)) {
                    let present = Snapshot::take(rec.log()).ok().and_then(|sn| sn.queues.get(&qb).map(|g| g.recs.iter().any(|r| r.pos == p && r.len == 40))).unwrap_or(false);
                    if !present {
                        acc.violation(
                            "C18/quiet-queue-record-kept-in-the-buffer-by-another-queues-traffic/OnDelay",
                            case,
                            json!({"policy": "OnDelay(2ms, Flush)", "history": "create a; create b; b.append(40 B); 7 x { sleep 1 ms; a.append(24 B) }; process-crash image", "violated": "b's record was appended 7 ms (more than three delays) earlier and calls kept arriving, yet it never reached the OS"}),
                        );
                        return;
                    }
                }
                drop(s);
            }
        }

        // ---- power-loss leg (one case in four) ------------------------------------------------
        // The same history, cut at a random call, under Always(FlushAndFsync): every call that
        // returned is durable, so after a power loss at the call boundary (only what an fsync
        // covered survives; files whose directory entry was never synced are gone, empty or
        // zero-filled) EVERY queue is as it was live - whichever queue the last calls, and the
        // roll-overs and deletions of files they caused, were addressed to.
        if case % 4 == 3 {
            let cut = rng.usize(ops.len() / 2, ops.len());
            let pdir = ctx.scratch.sub("c18-power");
            if let Ok(run) = live_run_ops(&pdir, Policy::AlwaysFsync, key, &ops[..cut]) {
                let mut b = Builder::new(run.initial.clone());
                for e in &run.events {
                    b.apply(e);
                }
                let live = run.states.last().cloned().unwrap_or_default();
                let last_q = ops[..cut].iter().rev().find_map(|o| o.queue().map(|s| s.to_string()));
                for ns in [crate::image::NeverSynced::Absent, crate::image::NeverSynced::ZeroLen, crate::image::NeverSynced::ZeroFilled] {
                    let img = b.power_image(ns, 0);
                    let side = ctx.scratch.sub("c18-power-rec");
                    img.materialize(&side);
                    let (r, sut, _) = recover(&side, Policy::AlwaysFsync, key);
                    drop(sut);
                    acc.eval();
                    acc.count("power_loss_images_compared_at_a_call_boundary");
                    match r {
                        Recovered::Ok(got) => {
                            for q in &names {
                                if Some(q) == last_q.as_ref() {
                                    continue;
                                }
                                acc.count("queue_states_compared_after_power_loss");
                                if live.queues.get(q) != got.queues.get(q) {
                                    acc.violation(
                                        format!("C18/queue-differs-after-power-loss-following-calls-on-other-queues/Always(FlushAndFsync)/{:?}", ns),
                                        case,
                                        json!({
                                            "history": run.history_json(cut), "queue": short(q), "last_call_addressed": last_q.as_deref().map(short),
                                            "live_state": live.queues.get(q).map(|s| json!({"positions": crate::ops::span(&s.recs.iter().map(|r| r.pos).collect::<Vec<_>>()), "last_position": s.last_position})),
                                            "recovered_state": got.queues.get(q).map(|s| json!({"positions": crate::ops::span(&s.recs.iter().map(|r| r.pos).collect::<Vec<_>>()), "last_position": s.last_position})),
                                            "image": img.describe(),
                                        }),
                                    );
                                    return;
                                }
                            }
                        }
                        other => acc.count(&format!("power_loss_recovery_not_ok_(C03_territory)_{}", super::c02::recovered_sig(&other).chars().take(24).collect::<String>())),
                    }
                }
            }
            crate::util::clear_dir(&pdir);
        }

        // ---- projections ----------------------------------------------------------------
        let proj_dir = ctx.scratch.sub("c18-proj");
        for q in &names {
            let touched = ops.iter().any(|o| o.queue() == Some(q.as_str()));
            if !touched {
                continue;
            }
            crate::util::clear_dir(&proj_dir);
            let mut sut = match Sut::open(&proj_dir, Policy::AlwaysFlush, key, false) {
                Ok(s) => s,
                Err(e) => {
                    acc.inconclusive(format!("cannot open projection directory: {:?}", e));
                    return;
                }
            };
            acc.count("projections_run");
            let mut others_since = 0u64;
            let mut unlink_seen = false;
            for (i, op) in ops.iter().enumerate() {
                let mine = op.queue() == Some(q.as_str());
                let global = matches!(op, Op::Restart | Op::Persist { .. });
                if !mine && !global {
                    others_since += 1;
                    if unlink_by[i].is_some() {
                        unlink_seen = true;
                    }
                    continue;
                }
                let out = sut.apply(i, op);
                let hist = || json!({"full_history": full.history_json(i + 1), "projected_onto": short(q), "at_call_index": i, "call": op.to_json()});
                if mine && out.logical() != full.outcomes[i].logical() {
                    acc.violation(
                        format!("C18/outcome-differs-from-projection/{}", op.kind()),
                        case,
                        json!({"context": hist(), "full_run": full.outcomes[i].to_json(), "projected_run": out.to_json()}),
                    );
                    return;
                }
                if let crate::ops::Outcome::Err(e) = &out {
                    if matches!(op, Op::Restart) {
                        acc.inconclusive(format!("restart of the projected run failed (C01 territory): {:?}", e));
                        return;
                    }
                }
                let theirs = match qstate(sut.log(), q) {
                    Ok(s) => s,
                    Err(e) => {
                        acc.inconclusive(format!("projection read API: {}", e));
                        return;
                    }
                };
                let ours = full.states[i + 1].queues.get(q).cloned();
                acc.eval();
                if mine {
                    acc.count("projected_calls_compared");
                } else if matches!(op, Op::Restart) {
                    acc.count("projected_restarts_compared");
                }
                if unlink_seen {
                    let d = ours.as_ref().map(|s| Snapshot { queues: [(q.clone(), s.clone())].into_iter().collect() }.digest()).unwrap_or(0);
                    acc.distinct(hash_combine(hash_combine(hash_str(q), d), others_since));
                }
                if ours != theirs {
                    let what = match (&ours, &theirs) {
                        (None, Some(_)) => "queue-missing-in-full-run",
                        (Some(_), None) => "queue-exists-only-in-full-run",
                        (Some(a), Some(b)) if a.recs != b.recs => "records-differ",
                        _ => "next-position-differs",
                    };
                    acc.violation(
                        format!("C18/queue-differs-from-projection/{}/{}", if matches!(op, Op::Restart) { "after-restart" } else { "live" }, what),
                        case,
                        json!({
                            "context": hist(), "other_queue_calls_since_last_own_call": others_since,
                            "full_run": ours.as_ref().map(|s| json!({"positions": crate::ops::span(&s.recs.iter().map(|r| r.pos).collect::<Vec<_>>()), "last_position": s.last_position})),
                            "projected_run": theirs.as_ref().map(|s| json!({"positions": crate::ops::span(&s.recs.iter().map(|r| r.pos).collect::<Vec<_>>()), "last_position": s.last_position})),
                        }),
                    );
                    return;
                }
                if mine {
                    others_since = 0;
                }
            }
        }

        // ---- crash leg on the full run -----------------------------------------------------
        // By the comparisons above, states[k][q] of the full run IS the projected run's state of
        // q at the corresponding point.
        let rec_dir = ctx.scratch.sub("c18-rec");
        let mut mat = Mat::new(&rec_dir);
        let mut b = Builder::new(full.initial.clone());
        let total_mut = full.events.iter().filter(|e| e.mutates()).count().max(1);
        let budget = ctx.tier.pick(60usize, 200);
        let stride = (total_mut / budget).max(1);
        let mut seen = 0usize;
        for w in &wins {
            let kidx = if w.id == u64::MAX { None } else { Some(w.id as usize) };
            let inflight_q: Option<&str> = kidx.and_then(|k| ops[k].queue());
            for i in w.begin + 1..w.end {
                let ev = &full.events[i];
                let mut torn: Option<(String, usize, Vec<u8>)> = None;
                if let Ev::Write { name, off, data, .. } = ev {
                    if data.len() > 1 && b.cur.files.contains_key(name) && rng.chance(1, (stride * 2) as u64) {
                        let cuts = cuts_for_write(*off, data, &mut rng, false);
                        if !cuts.is_empty() {
                            let c = *rng.pick(&cuts);
                            let saved = b.cur.files.get(name).cloned().unwrap();
                            let f = b.cur.files.get_mut(name).unwrap();
                            let end = *off as usize + c;
                            if f.len() < end {
                                f.resize(end, 0);
                            }
                            f[*off as usize..end].copy_from_slice(&data[..c]);
                            torn = Some((name.clone(), c, saved));
                        }
                    }
                }
                let mut points: Vec<(bool, serde_json::Value)> = Vec::new();
                if let Some((name, c, _)) = &torn {
                    mat.mark_dirty(name);
                    points.push((true, json!({"inside_call": kidx, "effect_index": i, "effect": ev.brief(), "bytes_of_write_applied": c})));
                }
                for (is_torn, point) in points {
                    let _ = is_torn;
                    if !compare_after_crash(&full, case, &mut mat, &b, kidx, inflight_q, &names, point, acc) {
                        return;
                    }
                }
                if let Some((name, _, saved)) = torn {
                    b.cur.files.insert(name.clone(), saved);
                    mat.mark_dirty(&name);
                }
                if let Some(n) = touched_name(ev) {
                    mat.mark_dirty(n);
                }
                b.apply(ev);
                if !b.unmodelled.is_empty() {
                    acc.inconclusive(format!("unmodelled file-system call in the trace: {}", b.unmodelled[0]));
                    return;
                }
                if ev.mutates() {
                    seen += 1;
                    let is_unlink = matches!(ev, Ev::Unlink { .. });
                    if seen % stride == 0 || is_unlink {
                        let point = json!({"inside_call": kidx, "effect_index": i, "after_effect": ev.brief()});
                        if !compare_after_crash(&full, case, &mut mat, &b, kidx, inflight_q, &names, point, acc) {
                            return;
                        }
                    }
                }
            }
        }
        acc.sample(|| json!({"case": case, "queues": names.iter().map(|n| short(n)).collect::<Vec<_>>(), "profile": profile.name(), "history_excerpt": full.history_json(12)}));
    }
}

#[allow(clippy::too_many_arguments)]
fn compare_after_crash(
    full: &LiveRun,
    case: u64,
    mat: &mut Mat,
    b: &Builder,
    kidx: Option<usize>,
    inflight_q: Option<&str>,
    names: &[String],
    point: serde_json::Value,
    acc: &mut Acc,
) -> bool {
    mat.sync(&b.cur);
    let (r, mut sut, evs) = recover(&mat.dir, full.policy, full.key);
    mat.touched_by(&evs);
    // continuation (sampled): replay the REST of the history on the recovered log, restart,
    // and require every queue other than the one addressed by the in-flight call to end up
    // exactly as in the full run (i.e. as in its projection)
    let mut continued: Option<Snapshot> = None;
    let want_continuation = (point.get("bytes_of_write_applied").is_some() && acc.get("crash_images_compared") % 3 == 0) || acc.get("crash_images_compared") % 40 == 0;
    if want_continuation {
        if let (Recovered::Ok(_), Some(s)) = (&r, sut.as_mut()) {
            let from = kidx.map(|k| k + 1).unwrap_or(0);
            let mut ok = true;
            for (i, op) in full.ops.iter().enumerate().skip(from) {
                let o = s.apply(i, op);
                if o.is_io_err() || matches!((op, &o), (Op::Restart, crate::ops::Outcome::Err(_))) {
                    ok = false;
                    break;
                }
            }
            if ok && s.reopen(7_777_777).is_ok() {
                continued = Snapshot::take(s.log()).ok();
            }
            let cevs = crate::shim::take_events(&mat.dir);
            crate::shim::reset();
            mat.touched_by(&cevs);
            acc.count("crash_continuations_run");
        }
    }
    finish(sut, mat);
    acc.count("crash_images_compared");
    if inflight_q.is_some() {
        acc.count("crash_points_inside_calls_on_other_queues");
    }
    let Recovered::Ok(snap) = r else {
        acc.count("crash_recovery_not_ok_(C02_territory)");
        return true;
    };
    // state index before the in-flight call (== after it for every queue it does not address)
    let base = match kidx {
        None => 0,
        Some(k) => k,
    };
    for q in names {
        if inflight_q == Some(q.as_str()) {
            continue;
        }
        // a global op in flight (restart / persist) changes no queue
        let want = full.states[base].queues.get(q);
        let got = snap.queues.get(q);
        acc.eval();
        acc.count("queue_states_compared_after_crash");
        if want != got {
            acc.violation(
                format!("C18/queue-differs-after-crash-inside-call-on-another-queue/{}", match (want, got) {
                    (Some(_), None) => "queue-lost",
                    (None, Some(_)) => "queue-appeared",
                    (Some(a), Some(b)) if a.recs != b.recs => "records-differ",
                    _ => "next-position-differs",
                }),
                case,
                json!({
                    "history": full.history_json(base + 1), "crash_point": point, "in_flight_call_addresses": inflight_q.map(short), "queue": short(q),
                    "projected_state": want.map(|s| json!({"positions": crate::ops::span(&s.recs.iter().map(|r| r.pos).collect::<Vec<_>>()), "last_position": s.last_position})),
                    "recovered_state": got.map(|s| json!({"positions": crate::ops::span(&s.recs.iter().map(|r| r.pos).collect::<Vec<_>>()), "last_position": s.last_position})),
                }),
            );
            return false;
        }
    }
    if let Some(end) = continued {
        let last = full.states.last().unwrap();
        for q in names {
            if inflight_q == Some(q.as_str()) {
                continue;
            }
            acc.eval();
            acc.count("queue_states_compared_after_crash_continuation_and_restart");
            if last.queues.get(q) != end.queues.get(q) {
                acc.violation(
                    format!("C18/queue-differs-after-crash-continuation-restart/{}", match (last.queues.get(q), end.queues.get(q)) {
                        (Some(_), None) => "queue-lost",
                        (None, Some(_)) => "queue-appeared",
                        (Some(a), Some(b)) if a.recs != b.recs => "records-differ",
                        _ => "next-position-differs",
                    }),
                    case,
                    json!({
                        "history": full.history_json(full.ops.len()), "crash_point": point, "in_flight_call_addresses": inflight_q.map(short), "queue": short(q),
                        "note": "after recovering the crash image the rest of the history was replayed, then the log was restarted",
                        "expected_as_in_full_run": last.queues.get(q).map(|s| json!({"positions": crate::ops::span(&s.recs.iter().map(|r| r.pos).collect::<Vec<_>>()), "last_position": s.last_position})),
                        "observed": end.queues.get(q).map(|s| json!({"positions": crate::ops::span(&s.recs.iter().map(|r| r.pos).collect::<Vec<_>>()), "last_position": s.last_position})),
                    }),
                );
                return false;
            }
        }
    }
    true
}
