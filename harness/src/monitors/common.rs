//! Shared driver: runs generated histories against the real library with the syscall
//! trace attached, keeping the op list, outcomes and trace-derived accounting.

use std::path::Path;

use serde_json::{json, Value};

use crate::gen::{Gen, GenCfg, Profile};
use crate::ops::{ops_json, ErrKind, Op, Outcome, Policy, Sut};
use crate::shim::{self, Ev};

pub fn is_wal_name(n: &str) -> bool {
    n.len() == 24 && n.starts_with("wal-") && n[4..].bytes().all(|b| b.is_ascii_digit())
}

pub fn wal_number(n: &str) -> Option<u64> {
    if is_wal_name(n) {
        n[4..].parse().ok()
    } else {
        None
    }
}

/// Sorted list of (file number, size) of WAL files in a directory (harness-side listing).
pub fn list_wal_files(dir: &Path) -> Vec<(u64, u64)> {
    let mut v = Vec::new();
    if let Ok(rd) = std::fs::read_dir(dir) {
        for e in rd.flatten() {
            if let Some(name) = e.file_name().to_str() {
                if let Some(n) = wal_number(name) {
                    if e.file_type().map(|t| t.is_file()).unwrap_or(false) {
                        let sz = e.metadata().map(|m| m.len()).unwrap_or(0);
                        v.push((n, sz));
                    }
                }
            }
        }
    }
    v.sort();
    v
}

#[derive(Default, Clone, Debug)]
pub struct IoStats {
    pub creates: u64,
    pub unlinks: u64,
    pub writes: u64,
    pub write_bytes: u64,
    pub fsyncs: u64,
    pub unmodelled: u64,
}

impl IoStats {
    pub fn absorb(&mut self, evs: &[Ev]) {
        for e in evs {
            match e {
                Ev::Open { flags, err: 0, .. } if flags & (libc::O_CREAT as u32) != 0 => self.creates += 1,
                Ev::Unlink { err: 0, .. } => self.unlinks += 1,
                Ev::Write { data, .. } => {
                    self.writes += 1;
                    self.write_bytes += data.len() as u64;
                }
                Ev::Fsync { .. } => self.fsyncs += 1,
                Ev::Unmodelled { .. } => self.unmodelled += 1,
                _ => {}
            }
        }
    }
}

pub struct Driver {
    pub sut: Sut,
    pub gen: Gen,
    pub ops: Vec<Op>,
    pub outcomes: Vec<Outcome>,
    /// absolute offset (within the current file) just past the last traced WAL write
    pub cursor: u64,
    pub io: IoStats,
    pub file_size: u64,
}

pub struct Step {
    pub k: usize,
    pub op: Op,
    pub outcome: Outcome,
    pub events: Vec<Ev>,
}

impl Driver {
    /// Open a fresh log in `dir` (must be empty) and set up the generator.
    pub fn start(dir: &Path, policy: Policy, key: u64, seed_parts: &[u64], profile: Profile, nqueues: usize) -> Result<Driver, ErrKind> {
        shim::reset_all();
        shim::set_root(dir);
        let sut = Sut::open(dir, policy, key, true)?;
        let file_size = sut.log().resource_usage().disk_used_bytes as u64;
        let evs = shim::take_events(dir);
        shim::reset();
        let mut io = IoStats::default();
        io.absorb(&evs);
        let cfg = GenCfg::new(profile, nqueues, file_size.max(1));
        let gen = Gen::new(seed_parts, cfg);
        Ok(Driver { sut, gen, ops: Vec::new(), outcomes: Vec::new(), cursor: 0, io, file_size })
    }

    fn after_call(&mut self) -> Vec<Ev> {
        let evs = shim::take_events(&self.sut.dir);
        shim::reset();
        self.io.absorb(&evs);
        for e in &evs {
            if let Ev::Write { off, data, name, .. } = e {
                if is_wal_name(name) && !data.is_empty() {
                    self.cursor = off + data.len() as u64;
                }
            }
        }
        evs
    }

    /// Apply a given operation as the next step of the history.
    pub fn apply(&mut self, op: Op) -> Step {
        let k = self.ops.len();
        let outcome = self.sut.apply(k, &op);
        let events = self.after_call();
        self.ops.push(op.clone());
        self.outcomes.push(outcome.clone());
        Step { k, op, outcome, events }
    }

    /// Generate the next operation (with cursor feedback) and apply it.
    pub fn step(&mut self) -> Step {
        let cur = if self.sut.policy.always() { Some(self.cursor) } else { None };
        let op = self.gen.next_op(cur);
        self.apply(op)
    }

    pub fn history_json(&self, last_n: usize) -> Value {
        let from = self.ops.len().saturating_sub(last_n);
        json!({
            "ops_total": self.ops.len(),
            "shown_from": from,
            "ops": ops_json(&self.ops[from..]),
            "policy": self.sut.policy.name(),
            "profile": self.gen.cfg.profile.name(),
        })
    }
}

/// Classify a snapshot difference into a stable, short signature fragment.
pub fn diff_class(a: &crate::ops::Snapshot, b: &crate::ops::Snapshot) -> &'static str {
    for (n, q) in &a.queues {
        match b.queues.get(n) {
            None => return "queue-lost",
            Some(o) => {
                let lp: Vec<u64> = q.recs.iter().map(|r| r.pos).collect();
                let rp: Vec<u64> = o.recs.iter().map(|r| r.pos).collect();
                if lp != rp {
                    if rp.len() < lp.len() {
                        return "records-lost";
                    }
                    if rp.len() > lp.len() {
                        return "records-resurrected";
                    }
                    return "positions-differ";
                }
                if q.recs != o.recs {
                    return "payload-differs";
                }
                if q.last_position != o.last_position {
                    return "next-position-differs";
                }
            }
        }
    }
    for n in b.queues.keys() {
        if !a.queues.contains_key(n) {
            return "queue-resurrected";
        }
    }
    "equal"
}
