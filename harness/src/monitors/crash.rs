//! Crash engine shared by C02, C03, C04, C12, C18: record a live run with its syscall
//! trace, enumerate crash points, rebuild the directory image at each, recover and
//! classify the recovered state against the states observed live.

use std::collections::BTreeSet;
use std::panic::{catch_unwind, AssertUnwindSafe};
use std::path::{Path, PathBuf};

use serde_json::{json, Value};

use super::common::is_wal_name;
use crate::gen::{Gen, GenCfg, Profile};
use crate::image::{Builder, Image};
use crate::layout::{BLOCK, HDR};
use crate::ops::{ErrKind, Model, Op, Outcome, Policy, Snapshot, Sut};
use crate::shim::{self, Ev};
use crate::util::Rng;

pub fn quiet_panics() {
    std::panic::set_hook(Box::new(|_| {}));
}

pub struct LiveRun {
    pub ops: Vec<Op>,
    pub outcomes: Vec<Outcome>,
    /// states[0] = empty log; states[k+1] = observable state after call k
    pub states: Vec<Snapshot>,
    /// the complete trace, marks included; window id u64::MAX = the initial open
    pub events: Vec<Ev>,
    pub initial: Image,
    pub key: u64,
    pub policy: Policy,
    pub file_size: u64,
    pub profile: Profile,
}

impl LiveRun {
    pub fn history_json(&self, upto: usize) -> Value {
        let upto = upto.min(self.ops.len());
        json!({
            "policy": self.policy.name(), "profile": self.profile.name(),
            "ops": crate::ops::ops_json(&self.ops[..upto]),
            "outcomes": self.outcomes[..upto].iter().map(|o| format!("{:?}", o)).collect::<Vec<_>>(),
        })
    }
}

/// Run a generated history live in `dir` (emptied first), recording everything.
/// `tweak` adjusts the generator configuration.
pub fn live_run(
    dir: &Path,
    policy: Policy,
    key: u64,
    seed_parts: &[u64],
    profile: Profile,
    nq: usize,
    nops: usize,
    tweak: impl FnOnce(&mut GenCfg),
) -> Result<LiveRun, String> {
    let mut gen: Option<Gen> = None;
    let mut tweak = Some(tweak);
    live_run_with(dir, policy, key, profile, |k, cursor, file_size| {
        if k >= nops {
            return None;
        }
        let g = gen.get_or_insert_with(|| {
            let mut cfg = GenCfg::new(profile, nq, file_size.max(1));
            if let Some(t) = tweak.take() {
                t(&mut cfg);
            }
            Gen::new(seed_parts, cfg)
        });
        Some(g.next_op(cursor))
    })
}

/// Run a fixed operation list.
pub fn live_run_ops(dir: &Path, policy: Policy, key: u64, ops: &[Op]) -> Result<LiveRun, String> {
    live_run_with(dir, policy, key, Profile::Mixed, |k, _, _| ops.get(k).cloned())
}

/// Core: `next(k, cursor, file_size)` yields the k-th operation or None to stop.
pub fn live_run_with(
    dir: &Path,
    policy: Policy,
    key: u64,
    profile: Profile,
    mut next: impl FnMut(usize, Option<u64>, u64) -> Option<Op>,
) -> Result<LiveRun, String> {
    crate::util::clear_dir(dir);
    shim::reset_all();
    shim::set_root(dir);
    let mut sut = Sut::open(dir, policy, key, true).map_err(|e| format!("open fresh dir: {:?}", e))?;
    let file_size = sut.log().resource_usage().disk_used_bytes as u64;
    let mut run = LiveRun {
        ops: Vec::new(),
        outcomes: Vec::new(),
        states: vec![Snapshot::default()],
        events: Vec::new(),
        initial: Image::default(),
        key,
        policy,
        file_size,
        profile,
    };
    let mut cursor = 0u64;
    run.events = shim::take_events(dir);
    shim::reset();
    let mut k = 0usize;
    while let Some(op) = next(k, if policy.always() { Some(cursor) } else { None }, file_size) {
        let out = sut.apply(k, &op);
        if out.is_io_err() {
            return Err(format!("live I/O error at op {}: {:?}", k, out));
        }
        if matches!(op, Op::Restart) && matches!(out, Outcome::Err(_)) {
            // the log could not be re-opened after a clean shutdown (C01 territory; C18 looks
            // at whether a projection of the same history can)
            return Err(format!("live restart failed at op {}: {:?}", k, out));
        }
        let snap = Snapshot::take(sut.log()).map_err(|e| format!("live snapshot: {}", e))?;
        // cursor feedback for the align profile
        let evs = shim::take_events(dir);
        shim::reset();
        for e in evs.iter().rev() {
            if let Ev::Write { off, data, name, .. } = e {
                if is_wal_name(name) && !data.is_empty() {
                    cursor = off + data.len() as u64;
                    break;
                }
            }
        }
        run.events.extend(evs);
        run.ops.push(op);
        run.outcomes.push(out);
        run.states.push(snap);
        k += 1;
    }
    // clean shutdown is NOT part of the trace: the crash happens while the log is live.
    // (Images are rebuilt from the trace, so what the drop flushes into `dir` is irrelevant.)
    shim::pause(true);
    sut.trace = false;
    drop(sut);
    shim::reset_all();
    Ok(run)
}

// ---------------------------------------------------------------------------------------
// Crash points

#[derive(Clone, Copy, Debug, PartialEq, Eq)]
pub struct CrashPoint {
    /// number of events fully applied
    pub applied: usize,
    /// bytes of event `applied` (a write) that also reached the file
    pub cut: Option<usize>,
}

/// Frame-relative and block-relative cut positions inside one write.
pub fn cuts_for_write(file_off: u64, data: &[u8], rng: &mut Rng, dense: bool) -> Vec<usize> {
    let n = data.len();
    let mut cuts: BTreeSet<usize> = BTreeSet::new();
    if n <= 1 {
        return Vec::new();
    }
    if dense && n <= 4096 {
        return (1..n).collect();
    }
    // walk the data as a sequence of frames / padding
    let mut o = 0usize;
    let mut aligned = true;
    while o < n {
        let in_block = ((file_off as usize) + o) % BLOCK;
        let rem = BLOCK - in_block;
        if rem < HDR {
            // padding
            cuts.insert(o + 1);
            o += rem.min(n - o);
            cuts.insert(o);
            continue;
        }
        if n - o < HDR {
            aligned = false;
            break;
        }
        let len = u16::from_le_bytes([data[o + 4], data[o + 5]]) as usize;
        let ftype = data[o + 6];
        if !(1..=4).contains(&ftype) || HDR + len > rem {
            // zero padding written as part of the buffer, or not frame aligned
            if data[o..o + HDR].iter().all(|b| *b == 0) {
                o += 1;
                continue;
            }
            aligned = false;
            break;
        }
        let fl = (HDR + len).min(n - o);
        for c in [1usize, 3, 4, 6, 7, 8, HDR + len / 2, fl.saturating_sub(1), fl] {
            if c >= 1 && c <= fl {
                cuts.insert(o + c);
            }
        }
        o += fl;
    }
    let _ = aligned;
    // block boundaries
    let mut b = BLOCK - (file_off as usize % BLOCK);
    while b < n {
        cuts.insert(b);
        if b > 1 {
            cuts.insert(b - 1);
        }
        cuts.insert(b + 1);
        b += BLOCK;
    }
    // random cuts
    let extra = if dense { (n / 512).clamp(4, 64) } else { 3 };
    for _ in 0..extra {
        cuts.insert(rng.usize(1, n - 1));
    }
    cuts.into_iter().filter(|c| *c >= 1 && *c < n).collect()
}

// ---------------------------------------------------------------------------------------
// Materialisation with dirty tracking

pub struct Mat {
    pub dir: PathBuf,
    primed: bool,
    dirty: BTreeSet<String>,
}

impl Mat {
    pub fn new(dir: &Path) -> Mat {
        Mat { dir: dir.to_path_buf(), primed: false, dirty: BTreeSet::new() }
    }
    pub fn invalidate_all(&mut self) {
        self.primed = false;
    }
    pub fn mark_dirty(&mut self, name: &str) {
        self.dirty.insert(name.to_string());
    }
    /// Note files touched by library calls made on the materialised directory.
    pub fn touched_by(&mut self, evs: &[Ev]) {
        for e in evs {
            match e {
                Ev::Open { name, flags, .. } if flags & (libc::O_CREAT as u32) != 0 => {
                    self.dirty.insert(name.clone());
                }
                Ev::Write { name, .. } | Ev::Ftruncate { name, .. } | Ev::Unlink { name, .. } => {
                    self.dirty.insert(name.clone());
                }
                Ev::Rename { .. } | Ev::Unmodelled { .. } | Ev::Mkdir { .. } | Ev::Rmdir { .. } => self.primed = false,
                _ => {}
            }
        }
    }
    /// Make the directory equal to `img`.
    pub fn sync(&mut self, img: &Image) {
        if !self.primed {
            img.materialize(&self.dir);
            self.primed = true;
            self.dirty.clear();
            return;
        }
        for n in std::mem::take(&mut self.dirty) {
            let p = self.dir.join(&n);
            match img.files.get(&n) {
                Some(d) => std::fs::write(&p, d).expect("materialize file"),
                None => {
                    let _ = std::fs::remove_file(&p);
                }
            }
        }
    }
}

pub fn touched_name(e: &Ev) -> Option<&str> {
    match e {
        Ev::Open { name, flags, .. } if flags & (libc::O_CREAT as u32) != 0 => Some(name),
        Ev::Write { name, .. } | Ev::Ftruncate { name, .. } | Ev::Unlink { name, .. } => Some(name),
        _ => None,
    }
}

// ---------------------------------------------------------------------------------------
// Recovery

pub enum Recovered {
    Ok(Snapshot),
    OpenErr(ErrKind),
    Panic(String),
    ReadApiErr(String),
}

pub const RECOVERY_CALL_BUDGET: i64 = 400_000;

/// Open `dir` (tracing the recovery) and snapshot the result.  The log is returned so the
/// caller can continue on it.
pub fn recover(dir: &Path, policy: Policy, key: u64) -> (Recovered, Option<Sut>, Vec<Ev>) {
    recover_opts(dir, policy, key, true)
}

/// `wipe = false` keeps the shim's fd/path tables (another log is still open elsewhere).
pub fn recover_opts(dir: &Path, policy: Policy, key: u64, wipe: bool) -> (Recovered, Option<Sut>, Vec<Ev>) {
    recover_faulted(dir, policy, key, wipe, None)
}

/// Like `recover_opts`, with the `nth` traced call of `class` failing once with `errno`.
pub fn recover_faulted(dir: &Path, policy: Policy, key: u64, wipe: bool, fault: Option<(usize, i64, i32)>) -> (Recovered, Option<Sut>, Vec<Ev>) {
    if wipe {
        shim::reset_all();
    } else {
        shim::reset();
    }
    shim::set_root(dir);
    shim::budget(RECOVERY_CALL_BUDGET);
    if let Some((class, nth, errno)) = fault {
        shim::fault(class, nth, errno, false);
    }
    let r = catch_unwind(AssertUnwindSafe(|| Sut::open(dir, policy, key, true)));
    shim::pause(true);
    shim::budget(-1);
    let evs = shim::take_events(dir);
    shim::reset();
    match r {
        Err(p) => {
            let msg = p.downcast_ref::<String>().cloned().or_else(|| p.downcast_ref::<&str>().map(|s| s.to_string())).unwrap_or_default();
            (Recovered::Panic(msg), None, evs)
        }
        Ok(Err(e)) => (Recovered::OpenErr(e), None, evs),
        Ok(Ok(sut)) => match catch_unwind(AssertUnwindSafe(|| Snapshot::take(sut.log()))) {
            Ok(Ok(s)) => (Recovered::Ok(s), Some(sut), evs),
            Ok(Err(e)) => (Recovered::ReadApiErr(e), None, evs),
            Err(_) => (Recovered::Panic("read accessor panicked".into()), None, evs),
        },
    }
}

// ---------------------------------------------------------------------------------------
// Classification of a recovered state against the states observed live

/// Is `r` equal to `base`, except that in some queues a prefix of the oldest records is
/// gone, every missing record being one that is absent from `later` (i.e. removed by a
/// truncate/delete issued between the two states)?  Next positions must equal `base`'s.
pub fn tolerated_partial(r: &Snapshot, base: &Snapshot, later: &Snapshot) -> bool {
    if r.queues.len() != base.queues.len() {
        return false;
    }
    let mut any_partial = false;
    for (n, bq) in &base.queues {
        let Some(rq) = r.queues.get(n) else {
            return false;
        };
        if rq.last_position != bq.last_position {
            return false;
        }
        if rq.recs == bq.recs {
            continue;
        }
        if rq.recs.len() >= bq.recs.len() {
            return false;
        }
        let skip = bq.recs.len() - rq.recs.len();
        if bq.recs[skip..] != rq.recs[..] {
            return false;
        }
        // every missing record must have been removed by a later call
        let later_q = later.queues.get(n);
        for m in &bq.recs[..skip] {
            let still = later_q.map(|lq| lq.recs.binary_search_by_key(&m.pos, |x| x.pos).ok().map(|i| lq.recs[i] == *m).unwrap_or(false)).unwrap_or(false);
            if still {
                return false;
            }
        }
        // a queue emptied by file deletion without its position record would have lost its
        // next position, which the last_position check above already covers
        any_partial = true;
    }
    any_partial
}

#[derive(Clone, Debug, PartialEq, Eq)]
pub enum Class {
    /// equals states[j]
    Exact(usize),
    /// equals states[j] up to a tolerated partial truncate/delete
    Partial(usize),
}

/// `r` must be states[j] for some j in lo..=hi (newest preferred), or a tolerated partial
/// application of truncates/deletes issued in (j, hi].
pub fn classify(r: &Snapshot, states: &[Snapshot], lo: usize, hi: usize) -> Option<Class> {
    for j in (lo..=hi).rev() {
        if *r == states[j] {
            return Some(Class::Exact(j));
        }
    }
    for j in (lo..hi).rev() {
        if tolerated_partial(r, &states[j], &states[hi]) {
            return Some(Class::Partial(j));
        }
    }
    None
}

// ---------------------------------------------------------------------------------------
// Continuation on a recovered log

/// Run `n` further operations on a recovered log in lock-step with the sequential model
/// seeded from the recovered snapshot, then restart twice and compare.  Returns a
/// description of the first divergence.
pub fn continuation(sut: &mut Sut, recovered: &Snapshot, seed_parts: &[u64], n: usize, file_size: u64, op_base: usize) -> Result<u64, (String, Value)> {
    let mut model = Model::from_snapshot(sut.key, recovered);
    let mut cfg = GenCfg::new(Profile::Gc, recovered.queues.len().max(2), file_size.max(1));
    cfg.restart_pm = 0;
    cfg.persist_pm = 0;
    cfg.bad_pm = 30;
    let mut gen = Gen::new(seed_parts, cfg);
    // make the generator aware of the recovered queues
    for (name, q) in &recovered.queues {
        if !gen.names.contains(name) {
            gen.names.push(name.clone());
        }
        gen.note_external(&Op::Create { q: name.clone() });
        if let Some(g) = gen.st.get_mut(name) {
            g.next = q.last_position.map(|p| p + 1).unwrap_or(0);
            for r in &q.recs {
                g.recs.push_back((r.pos, r.len));
                g.bytes += r.len as u64;
            }
        }
    }
    let mut ops_done: Vec<Op> = Vec::new();
    let mut appended = 0u64;
    let mut i = 0usize;
    // keep going until a random amount between a few KiB and two files worth of data was
    // appended: short continuations stop inside the file that was being created/re-used at
    // the crash, long ones roll past it
    let target = gen.rng.range(2_000, 2 * file_size);
    while i < n || (appended < target && i < n + 60) {
        let op = gen.next_op(None);
        let k = op_base + i;
        i += 1;
        let want = model.apply(k, &op);
        let got = catch_unwind(AssertUnwindSafe(|| sut.apply(k, &op)));
        let got = match got {
            Ok(g) => g,
            Err(_) => return Err(("continuation-panic".into(), json!({"continuation_ops": crate::ops::ops_json(&ops_done), "panicked_on": op.to_json()}))),
        };
        if let Op::Append { lens, .. } = &op {
            if matches!(got, Outcome::Appended { last: Some(_), .. }) {
                appended += lens.iter().map(|l| *l as u64).sum::<u64>();
            }
        }
        ops_done.push(op.clone());
        if got.logical() != want {
            return Err((
                "continuation-outcome".into(),
                json!({"continuation_ops": crate::ops::ops_json(&ops_done), "observed": got.to_json(), "specified": want.to_json()}),
            ));
        }
        let snap = Snapshot::take(sut.log()).map_err(|e| ("continuation-read-api".to_string(), json!({"error": e})))?;
        if let Some(d) = model.snapshot().diff(&snap) {
            return Err(("continuation-state".into(), json!({"continuation_ops": crate::ops::ops_json(&ops_done), "diff_spec_vs_observed": d})));
        }
    }
    let want = model.snapshot();
    for round in 0..2 {
        match sut.reopen(op_base as u64 + 9000 + round) {
            Ok(()) => {}
            Err(e) => {
                return Err((
                    format!("continuation-restart-open-failed/{:?}", e),
                    json!({"continuation_ops": crate::ops::ops_json(&ops_done), "round": round, "error": format!("{:?}", e)}),
                ))
            }
        }
        let snap = Snapshot::take(sut.log()).map_err(|e| ("continuation-read-api".to_string(), json!({"error": e})))?;
        if let Some(d) = want.diff(&snap) {
            return Err((
                format!("continuation-restart-state/{}", super::common::diff_class(&want, &snap)),
                json!({"continuation_ops": crate::ops::ops_json(&ops_done), "round": round, "diff_expected_vs_after_restart": d}),
            ));
        }
    }
    Ok(ops_done.len() as u64)
}

/// Which window (by index into `wins`) contains event index i.
pub fn window_of(wins: &[crate::image::Window], i: usize) -> Option<usize> {
    wins.iter().position(|w| i > w.begin && i < w.end)
}
