//! One oracle per property.

pub mod common;
pub mod c01;
pub mod c05;

use crate::runner::Monitor;

pub fn by_id(id: &str) -> Option<Box<dyn Monitor>> {
    match id {
        "C01" => Some(Box::new(c01::C01)),
        "C05" => Some(Box::new(c05::C05)),
        _ => None,
    }
}
