//! One oracle per property.

pub mod common;
pub mod c01;
pub mod c02;
pub mod c03;
pub mod crash;
pub mod c05;
pub mod c11;

use crate::runner::Monitor;

pub fn by_id(id: &str) -> Option<Box<dyn Monitor>> {
    match id {
        "C01" => Some(Box::new(c01::C01)),
        "C02" => Some(Box::new(c02::C02)),
        "C03" => Some(Box::new(c03::C03)),
        "C05" => Some(Box::new(c05::C05)),
        "C11" => Some(Box::new(c11::C11)),
        _ => None,
    }
}
