//! One oracle per property.

pub mod common;
pub mod c01;
pub mod c02;
pub mod c03;
pub mod crash;
pub mod c04;
pub mod c05;
pub mod c06;
pub mod c08;
pub mod c09;
pub mod c10;
pub mod c11;

use crate::runner::Monitor;

pub fn by_id(id: &str) -> Option<Box<dyn Monitor>> {
    match id {
        "C01" => Some(Box::new(c01::C01)),
        "C02" => Some(Box::new(c02::C02)),
        "C03" => Some(Box::new(c03::C03)),
        "C04" => Some(Box::new(c04::C04)),
        "C05" => Some(Box::new(c05::C05)),
        "C06" => Some(Box::new(c06::C06)),
        "C08" => Some(Box::new(c08::C08)),
        "C09" => Some(Box::new(c09::C09)),
        "C10" => Some(Box::new(c10::C10)),
        "C11" => Some(Box::new(c11::C11)),
        _ => None,
    }
}
