//! Operations, self-identifying payloads, the system-under-test wrapper, observable
//! snapshots and the sequential specification model.

use std::borrow::Cow;
use std::collections::{BTreeMap, VecDeque};
use std::ops::Bound;
use std::path::{Path, PathBuf};
use std::time::Duration;

use bytes::Buf;
use mrecordlog::error::{
    AppendError, CreateQueueError, DeleteQueueError, ReadRecordError, TruncateError,
};
use mrecordlog::{MultiRecordLog, PersistAction, PersistPolicy};
use serde_json::{json, Value};

use crate::shim;
use crate::util::{hash_bytes, hash_combine, Rng};

// ---------------------------------------------------------------------------------------
// Policies

#[derive(Clone, Copy, Debug, PartialEq, Eq)]
pub enum Policy {
    DoNothing,
    DelayLongFlush,
    DelayLongFsync,
    DelayZeroFsync,
    /// OnDelay with a 2 ms interval: the harness sleeps 3 ms before some calls (see
    /// `Sut::apply`), so the delay elapses BETWEEN calls of one history and the policy
    /// switches between "does not persist" and "persists" mid-run.
    DelayShortFlush,
    AlwaysFlush,
    AlwaysFsync,
    /// OnDelay with a sub-millisecond interval (250 us, FlushAndFsync): elapses between most
    /// calls without any help, and exercises interval arithmetic done in coarser units.
    DelaySubMsFsync,
}

pub const ALL_POLICIES: [Policy; 8] = [
    Policy::DoNothing,
    Policy::DelayLongFlush,
    Policy::DelayLongFsync,
    Policy::DelayZeroFsync,
    Policy::DelayShortFlush,
    Policy::AlwaysFlush,
    Policy::AlwaysFsync,
    Policy::DelaySubMsFsync,
];

impl Policy {
    pub fn to_policy(self) -> PersistPolicy {
        match self {
            Policy::DoNothing => PersistPolicy::DoNothing,
            Policy::DelayLongFlush => PersistPolicy::OnDelay {
                interval: Duration::from_secs(3600),
                action: PersistAction::Flush,
            },
            Policy::DelayLongFsync => PersistPolicy::OnDelay {
                interval: Duration::from_secs(3600),
                action: PersistAction::FlushAndFsync,
            },
            Policy::DelayZeroFsync => PersistPolicy::OnDelay {
                interval: Duration::from_secs(0),
                action: PersistAction::FlushAndFsync,
            },
            Policy::DelayShortFlush => PersistPolicy::OnDelay {
                interval: Duration::from_millis(2),
                action: PersistAction::Flush,
            },
            Policy::DelaySubMsFsync => PersistPolicy::OnDelay {
                interval: Duration::from_micros(250),
                action: PersistAction::FlushAndFsync,
            },
            Policy::AlwaysFlush => PersistPolicy::Always(PersistAction::Flush),
            Policy::AlwaysFsync => PersistPolicy::Always(PersistAction::FlushAndFsync),
        }
    }
    pub fn name(self) -> &'static str {
        match self {
            Policy::DoNothing => "DoNothing",
            Policy::DelayLongFlush => "OnDelay(1h,Flush)",
            Policy::DelayLongFsync => "OnDelay(1h,FlushAndFsync)",
            Policy::DelayZeroFsync => "OnDelay(0,FlushAndFsync)",
            Policy::DelayShortFlush => "OnDelay(2ms,Flush)+sleeps",
            Policy::DelaySubMsFsync => "OnDelay(250us,FlushAndFsync)",
            Policy::AlwaysFlush => "Always(Flush)",
            Policy::AlwaysFsync => "Always(FlushAndFsync)",
        }
    }
    /// Does every mutating call flush to the OS before returning (by contract)?
    pub fn always(self) -> bool {
        matches!(self, Policy::AlwaysFlush | Policy::AlwaysFsync)
    }
}

// ---------------------------------------------------------------------------------------
// Operations

#[derive(Clone, Debug, PartialEq, Eq)]
pub enum Op {
    Create { q: String },
    Delete { q: String },
    /// `lens[i]` is the payload size of the i-th record; payload bytes derive from
    /// (case key, op index, i).  `chained`: pass the payload as a two-chunk `Buf`.
    Append { q: String, pos: Option<u64>, lens: Vec<usize>, chained: bool },
    Truncate { q: String, pos: u64 },
    Persist { fsync: bool },
    Restart,
}

impl Op {
    pub fn kind(&self) -> &'static str {
        match self {
            Op::Create { .. } => "create_queue",
            Op::Delete { .. } => "delete_queue",
            Op::Append { lens, .. } => {
                if lens.len() == 1 {
                    "append_record"
                } else {
                    "append_records"
                }
            }
            Op::Truncate { .. } => "truncate",
            Op::Persist { .. } => "persist",
            Op::Restart => "restart",
        }
    }
    pub fn queue(&self) -> Option<&str> {
        match self {
            Op::Create { q } | Op::Delete { q } | Op::Append { q, .. } | Op::Truncate { q, .. } => {
                Some(q)
            }
            _ => None,
        }
    }
    pub fn to_json(&self) -> Value {
        fn qn(q: &str) -> Value {
            if q.len() <= 40 {
                json!(q)
            } else {
                json!(format!("{}..<{} bytes>", &q[..q.char_indices().nth(16).map(|x| x.0).unwrap_or(0)], q.len()))
            }
        }
        match self {
            Op::Create { q } => json!({"op":"create_queue","q":qn(q)}),
            Op::Delete { q } => json!({"op":"delete_queue","q":qn(q)}),
            Op::Append { q, pos, lens, chained } => {
                let l: Value = if lens.len() <= 8 {
                    json!(lens)
                } else {
                    json!(format!("{} records, {} bytes", lens.len(), lens.iter().sum::<usize>()))
                };
                json!({"op":"append","q":qn(q),"pos":pos,"lens":l,"chained":chained})
            }
            Op::Truncate { q, pos } => json!({"op":"truncate","q":qn(q),"upto":pos}),
            Op::Persist { fsync } => json!({"op":"persist","fsync":fsync}),
            Op::Restart => json!({"op":"restart"}),
        }
    }
}

pub fn ops_json(ops: &[Op]) -> Value {
    Value::Array(ops.iter().map(|o| o.to_json()).collect())
}

// ---------------------------------------------------------------------------------------
// Self-identifying payloads

/// Identity of one appended record: (op index, index in batch, length).
#[derive(Clone, Copy, Debug, PartialEq, Eq, Hash, PartialOrd, Ord)]
pub struct Pid {
    pub op: u32,
    pub idx: u32,
    pub len: u32,
}

/// Payload bytes for a record identity under a case key: the first min(len,16) bytes are
/// the tag (key-mixed op, idx, len), the rest a PRNG stream keyed by the same triple.
pub fn payload_bytes(key: u64, pid: Pid) -> Vec<u8> {
    let mut out = vec![0u8; pid.len as usize];
    let mut rng = Rng::from_parts(&[key, pid.op as u64, pid.idx as u64, pid.len as u64]);
    rng.fill(&mut out);
    let mut tag = [0u8; 16];
    tag[0..4].copy_from_slice(&pid.op.to_le_bytes());
    tag[4..8].copy_from_slice(&pid.idx.to_le_bytes());
    tag[8..12].copy_from_slice(&pid.len.to_le_bytes());
    tag[12..16].copy_from_slice(&(key as u32).to_le_bytes());
    let n = out.len().min(16);
    out[..n].copy_from_slice(&tag[..n]);
    // Hostile tail: the last FORGED_ENTRY_LEN bytes of every payload of at least 64 bytes
    // are a complete, well-formed serialized WAL entry (AppendRecords on a queue nobody ever
    // created).  If a frame boundary falls right before it and the library ever takes that
    // frame's payload for an entry of its own (e.g. a damaged frame-type byte that is not
    // covered by the checksum), a record that was never appended surfaces.
    if out.len() >= 64 {
        let mut e = forged_entry();
        // the forged record's 11 payload bytes are unique to this payload, so that tails of
        // different payloads are never interchangeable
        let at_payload = e.len() - 11;
        let uniq = format!("{:011x}", crate::util::hash_combine(key, (pid.op as u64) << 32 | pid.idx as u64) & 0xFFF_FFFF_FFFF);
        e[at_payload..].copy_from_slice(uniq.as_bytes());
        let at = out.len() - e.len();
        out[at..].copy_from_slice(&e);
        // ... and, in front of it, payloads of >= 200 bytes carry a complete, checksum-valid
        // FRAME (an application that stores log bytes inside its records does exactly this).
        // It can only ever be parsed if the reader starts reading a header in the middle of a
        // payload, e.g. after following a damaged length field.
        if out.len() >= 200 {
            let f = embedded_frame();
            let at2 = at - f.len();
            out[at2..at].copy_from_slice(&f);
        }
    }
    out
}

pub const EMBEDDED_QUEUE: &str = "forged-frame!";

/// A complete `Full` frame (header with a correct checksum) carrying
/// `AppendRecords { queue: "forged-frame!", position: 9, [(9, "EMBEDDED!")] }`.
pub fn embedded_frame() -> Vec<u8> {
    let mut e = Vec::new();
    e.push(4u8);
    e.extend_from_slice(&9u64.to_le_bytes());
    e.extend_from_slice(&(EMBEDDED_QUEUE.len() as u16).to_le_bytes());
    e.extend_from_slice(EMBEDDED_QUEUE.as_bytes());
    e.extend_from_slice(&9u64.to_le_bytes());
    e.extend_from_slice(&9u32.to_le_bytes());
    e.extend_from_slice(b"EMBEDDED!");
    let mut f = Vec::with_capacity(7 + e.len());
    f.extend_from_slice(&crate::layout::crc32(1, &e).to_le_bytes());
    f.extend_from_slice(&(e.len() as u16).to_le_bytes());
    f.push(1u8);
    f.extend_from_slice(&e);
    f
}

pub const FORGED_QUEUE: &str = "forged!";
pub const FORGED_ENTRY_LEN: usize = 1 + 8 + 2 + 7 + 8 + 4 + 11;

/// Serialized `AppendRecords { queue: "forged!", position: 7, [(7, "FORGED-DATA")] }`.
pub fn forged_entry() -> Vec<u8> {
    let mut e = Vec::with_capacity(FORGED_ENTRY_LEN);
    e.push(4u8);
    e.extend_from_slice(&7u64.to_le_bytes());
    e.extend_from_slice(&(FORGED_QUEUE.len() as u16).to_le_bytes());
    e.extend_from_slice(FORGED_QUEUE.as_bytes());
    e.extend_from_slice(&7u64.to_le_bytes());
    e.extend_from_slice(&11u32.to_le_bytes());
    e.extend_from_slice(b"FORGED-DATA");
    e
}

pub fn payload_hash(key: u64, pid: Pid) -> u64 {
    hash_bytes(&payload_bytes(key, pid))
}

/// A `Buf` made of two chunks, to exercise the non-contiguous input path.
pub struct TwoChunks {
    a: Vec<u8>,
    b: Vec<u8>,
    pos: usize,
}

impl TwoChunks {
    pub fn split(data: Vec<u8>, at: usize) -> TwoChunks {
        let at = at.min(data.len());
        let b = data[at..].to_vec();
        let mut a = data;
        a.truncate(at);
        TwoChunks { a, b, pos: 0 }
    }
}

impl Buf for TwoChunks {
    fn remaining(&self) -> usize {
        self.a.len() + self.b.len() - self.pos
    }
    fn chunk(&self) -> &[u8] {
        if self.pos < self.a.len() {
            &self.a[self.pos..]
        } else {
            &self.b[self.pos - self.a.len()..]
        }
    }
    fn advance(&mut self, cnt: usize) {
        self.pos += cnt;
    }
}

// ---------------------------------------------------------------------------------------
// Outcomes

#[derive(Clone, Debug, PartialEq, Eq)]
pub enum ErrKind {
    AlreadyExists,
    MissingQueue,
    Past,
    Io(String),
    Corruption,
    /// the library call panicked (message, truncated)
    Panic(String),
}

#[derive(Clone, Debug, PartialEq, Eq)]
pub enum Outcome {
    Created { bytes: u64 },
    Deleted { bytes: u64 },
    Appended { last: Option<u64>, bytes: u64 },
    Truncated { evicted: usize, bytes: u64 },
    Persisted,
    Restarted,
    Err(ErrKind),
}

impl Outcome {
    pub fn bytes(&self) -> Option<u64> {
        match self {
            Outcome::Created { bytes }
            | Outcome::Deleted { bytes }
            | Outcome::Appended { bytes, .. }
            | Outcome::Truncated { bytes, .. } => Some(*bytes),
            _ => None,
        }
    }
    /// Same outcome with the byte count erased (for logical comparisons).
    pub fn logical(&self) -> Outcome {
        match self {
            Outcome::Created { .. } => Outcome::Created { bytes: 0 },
            Outcome::Deleted { .. } => Outcome::Deleted { bytes: 0 },
            Outcome::Appended { last, .. } => Outcome::Appended { last: *last, bytes: 0 },
            Outcome::Truncated { evicted, .. } => Outcome::Truncated { evicted: *evicted, bytes: 0 },
            Outcome::Err(ErrKind::Io(_)) => Outcome::Err(ErrKind::Io(String::new())),
            o => o.clone(),
        }
    }
    /// An I/O error or a panic from a live call: outside the subject of most monitors
    /// (they report it as inconclusive; C05 judges panics itself).
    pub fn is_io_err(&self) -> bool {
        matches!(self, Outcome::Err(ErrKind::Io(_)) | Outcome::Err(ErrKind::Panic(_)))
    }
    pub fn is_panic(&self) -> bool {
        matches!(self, Outcome::Err(ErrKind::Panic(_)))
    }
    pub fn to_json(&self) -> Value {
        json!(format!("{:?}", self))
    }
}

// ---------------------------------------------------------------------------------------
// System under test

pub struct Sut {
    pub dir: PathBuf,
    pub policy: Policy,
    pub log: Option<MultiRecordLog>,
    pub key: u64,
    pub trace: bool,
}

pub fn open_err_kind(e: &ReadRecordError) -> ErrKind {
    match e {
        ReadRecordError::IoError(e) => ErrKind::Io(format!("{:?}", e.kind())),
        ReadRecordError::Corruption => ErrKind::Corruption,
    }
}

impl Sut {
    /// Open (or create) a log in `dir`.  With `trace`, every library call runs inside a
    /// BEGIN/END window of the shim.
    pub fn open(dir: &Path, policy: Policy, key: u64, trace: bool) -> Result<Sut, ErrKind> {
        let mut s = Sut { dir: dir.to_path_buf(), policy, log: None, key, trace };
        s.reopen(u64::MAX)?;
        Ok(s)
    }

    fn windowed<T>(&self, id: u64, f: impl FnOnce() -> T) -> T {
        if self.trace {
            shim::pause(false);
            shim::mark(shim::MARK_BEGIN, id);
            let r = f();
            shim::mark(shim::MARK_END, id);
            shim::pause(true);
            r
        } else {
            f()
        }
    }

    /// Drop the log (clean shutdown) inside window `id`.
    pub fn close(&mut self, id: u64) {
        if let Some(log) = self.log.take() {
            self.windowed(id, move || drop(log));
        }
    }

    pub fn reopen(&mut self, id: u64) -> Result<(), ErrKind> {
        self.close(id);
        let dir = self.dir.clone();
        let pol = self.policy.to_policy();
        let r = self.windowed(id, || std::panic::catch_unwind(std::panic::AssertUnwindSafe(|| MultiRecordLog::open_with_prefs(&dir, pol))));
        match r {
            Ok(Ok(l)) => {
                self.log = Some(l);
                Ok(())
            }
            Ok(Err(e)) => Err(open_err_kind(&e)),
            Err(p) => {
                let msg = p.downcast_ref::<String>().cloned().or_else(|| p.downcast_ref::<&str>().map(|s| s.to_string())).unwrap_or_default();
                Err(ErrKind::Panic(msg.chars().take(100).collect()))
            }
        }
    }

    pub fn log(&self) -> &MultiRecordLog {
        self.log.as_ref().expect("log is open")
    }

    /// Apply one operation (op index `k` names its payloads and its trace window).
    pub fn apply(&mut self, k: usize, op: &Op) -> Outcome {
        let key = self.key;
        match op {
            Op::Restart => match self.reopen(k as u64) {
                Ok(()) => Outcome::Restarted,
                Err(e) => Outcome::Err(e),
            },
            _ => {
                if self.policy == Policy::DelayShortFlush && k % 5 == 2 {
                    // let the 2 ms persist delay elapse before this call
                    std::thread::sleep(Duration::from_millis(3));
                }
                let trace = self.trace;
                let log = self.log.as_mut().expect("log is open");
                if trace {
                    shim::pause(false);
                    shim::mark(shim::MARK_BEGIN, k as u64);
                }
                let out = match std::panic::catch_unwind(std::panic::AssertUnwindSafe(|| apply_to_log(log, key, k, op))) {
                    Ok(o) => o,
                    Err(p) => {
                        let msg = p.downcast_ref::<String>().cloned().or_else(|| p.downcast_ref::<&str>().map(|s| s.to_string())).unwrap_or_default();
                        Outcome::Err(ErrKind::Panic(msg.chars().take(100).collect()))
                    }
                };
                if trace {
                    shim::mark(shim::MARK_END, k as u64);
                    shim::pause(true);
                }
                out
            }
        }
    }
}

pub fn apply_to_log(log: &mut MultiRecordLog, key: u64, k: usize, op: &Op) -> Outcome {
    match op {
        Op::Create { q } => match log.create_queue(q) {
            Ok(o) => Outcome::Created { bytes: o.wal_bytes_written },
            Err(CreateQueueError::AlreadyExists) => Outcome::Err(ErrKind::AlreadyExists),
            Err(CreateQueueError::IoError(e)) => Outcome::Err(ErrKind::Io(format!("{:?}", e.kind()))),
        },
        Op::Delete { q } => match log.delete_queue(q) {
            Ok(o) => Outcome::Deleted { bytes: o.wal_bytes_written },
            Err(DeleteQueueError::MissingQueue(_)) => Outcome::Err(ErrKind::MissingQueue),
            Err(DeleteQueueError::IoError(e)) => Outcome::Err(ErrKind::Io(format!("{:?}", e.kind()))),
        },
        Op::Append { q, pos, lens, chained } => {
            let payloads: Vec<Vec<u8>> = lens
                .iter()
                .enumerate()
                .map(|(i, l)| payload_bytes(key, Pid { op: k as u32, idx: i as u32, len: *l as u32 }))
                .collect();
            let res = if lens.len() == 1 && !*chained {
                log.append_record(q, *pos, &payloads[0][..])
            } else if *chained {
                let bufs = payloads.into_iter().map(|p| {
                    let at = p.len() / 3;
                    TwoChunks::split(p, at)
                });
                log.append_records(q, *pos, bufs)
            } else {
                // the batch is handed over as iterators of three shapes (by op index): exact
                // size, filtered (size_hint (0, Some(n + decoys))) and generator (size_hint
                // (0, None)): an application's batch is often the filtered kind
                match k % 3 {
                    0 => log.append_records(q, *pos, payloads.iter().map(|p| &p[..])),
                    1 => {
                        let mut slots: Vec<Option<&[u8]>> = vec![None];
                        for p in &payloads {
                            slots.push(Some(&p[..]));
                            slots.push(None);
                        }
                        log.append_records(q, *pos, slots.into_iter().filter_map(|x| x))
                    }
                    _ => {
                        let mut it = payloads.iter();
                        log.append_records(q, *pos, std::iter::from_fn(move || it.next().map(|p| &p[..])))
                    }
                }
            };
            match res {
                Ok(o) => Outcome::Appended { last: o.last_position, bytes: o.wal_bytes_written },
                Err(AppendError::MissingQueue(_)) => Outcome::Err(ErrKind::MissingQueue),
                Err(AppendError::Past) => Outcome::Err(ErrKind::Past),
                Err(AppendError::IoError(e)) => Outcome::Err(ErrKind::Io(format!("{:?}", e.kind()))),
            }
        }
        Op::Truncate { q, pos } => match log.truncate(q, ..=*pos) {
            Ok(o) => Outcome::Truncated { evicted: o.evicted_records, bytes: o.wal_bytes_written },
            Err(TruncateError::MissingQueue(_)) => Outcome::Err(ErrKind::MissingQueue),
            Err(TruncateError::IoError(e)) => Outcome::Err(ErrKind::Io(format!("{:?}", e.kind()))),
        },
        Op::Persist { fsync } => {
            let a = if *fsync { PersistAction::FlushAndFsync } else { PersistAction::Flush };
            match log.persist(a) {
                Ok(()) => Outcome::Persisted,
                Err(e) => Outcome::Err(ErrKind::Io(format!("{:?}", e.kind()))),
            }
        }
        Op::Restart => unreachable!("restart handled by Sut"),
    }
}

// ---------------------------------------------------------------------------------------
// Snapshots of the observable state

#[derive(Clone, Debug, PartialEq, Eq, PartialOrd, Ord)]
pub struct Rec {
    pub pos: u64,
    pub len: u32,
    pub hash: u64,
}

#[derive(Clone, Debug, PartialEq, Eq, Default)]
pub struct QSnap {
    pub recs: Vec<Rec>,
    pub last_position: Option<u64>,
}

#[derive(Clone, Debug, PartialEq, Eq, Default)]
pub struct Snapshot {
    pub queues: BTreeMap<String, QSnap>,
}

#[derive(Default, Clone, Debug)]
pub struct SnapStats {
    pub owned_payloads: u64,
    pub records: u64,
}

impl Snapshot {
    /// Observe the state through the public read API only.
    pub fn take(log: &MultiRecordLog) -> Result<Snapshot, String> {
        let mut st = SnapStats::default();
        Snapshot::take_stats(log, &mut st)
    }

    pub fn take_stats(log: &MultiRecordLog, st: &mut SnapStats) -> Result<Snapshot, String> {
        let mut names: Vec<String> = log.list_queues().map(|s| s.to_string()).collect();
        names.sort();
        for w in names.windows(2) {
            if w[0] == w[1] {
                return Err(format!("list_queues returned {:?} twice", short(&w[0])));
            }
        }
        let mut queues = BTreeMap::new();
        for n in names {
            if !log.queue_exists(&n) {
                return Err(format!("listed queue {:?} does not exist", short(&n)));
            }
            let mut recs = Vec::new();
            let it = log.range(&n, ..).map_err(|e| format!("range on listed queue: {}", e))?;
            let mut last_owned = false;
            for r in it {
                st.records += 1;
                // an owned payload that is NOT the newest record can only come from the
                // ring-wrap branch of the payload buffer
                if last_owned {
                    st.owned_payloads += 1;
                }
                last_owned = matches!(r.payload, Cow::Owned(_));
                recs.push(Rec { pos: r.position, len: r.payload.len() as u32, hash: hash_bytes(&r.payload) });
            }
            let last_position = log.last_position(&n).map_err(|e| format!("last_position: {}", e))?;
            queues.insert(n, QSnap { recs, last_position });
        }
        Ok(Snapshot { queues })
    }

    /// A consumer resuming behind (or at) a position it has already seen must be handed exactly
    /// the records that `range(..)` shows beyond it. Checked at the positions next to every
    /// hole in a queue's positions (what a dropped entry leaves behind), at both ends and just
    /// outside them. Returns the number of resuming reads compared.
    pub fn resume_reads(&self, log: &MultiRecordLog) -> Result<u64, String> {
        use std::ops::Bound;
        let mut n = 0u64;
        for (q, qs) in &self.queues {
            let recs = &qs.recs;
            if recs.is_empty() {
                continue;
            }
            let mut at: Vec<u64> = Vec::new();
            let first = recs[0].pos;
            let last = recs[recs.len() - 1].pos;
            at.push(first);
            at.push(last);
            if recs.len() >= 2 {
                at.push(recs[recs.len() - 2].pos);
            }
            if let Some(x) = first.checked_sub(1) {
                at.push(x);
            }
            let mut holes = 0;
            for w in recs.windows(2) {
                if w[1].pos != w[0].pos.wrapping_add(1) {
                    at.push(w[0].pos);
                    at.push(w[0].pos.wrapping_add(1));
                    at.push(w[1].pos - 1);
                    at.push(w[1].pos);
                    holes += 1;
                    if holes >= 4 {
                        break;
                    }
                }
            }
            at.sort();
            at.dedup();
            for p in at {
                for excl in [true, false] {
                    let lo = if excl { Bound::Excluded(p) } else { Bound::Included(p) };
                    let it = log.range(q, (lo, Bound::Unbounded)).map_err(|e| format!("range on listed queue: {}", e))?;
                    let got: Vec<Rec> = it.map(|r| Rec { pos: r.position, len: r.payload.len() as u32, hash: hash_bytes(&r.payload) }).collect();
                    let want: Vec<Rec> = recs.iter().filter(|r| if excl { r.pos > p } else { r.pos >= p }).cloned().collect();
                    n += 1;
                    if got != want {
                        return Err(format!(
                            "a consumer resuming {} position {} of queue {:?} is handed {} record(s) (positions {:?}), range(..) shows {} beyond it (positions {:?})",
                            if excl { "behind" } else { "at" }, p, short(q), got.len(),
                            got.iter().map(|r| r.pos).take(6).collect::<Vec<_>>(), want.len(),
                            want.iter().map(|r| r.pos).take(6).collect::<Vec<_>>()
                        ));
                    }
                }
            }
        }
        Ok(n)
    }

    pub fn digest(&self) -> u64 {
        let mut h = 0x1234_5678u64;
        for (n, q) in &self.queues {
            h = hash_combine(h, hash_bytes(n.as_bytes()));
            h = hash_combine(h, q.last_position.map(|x| x.wrapping_add(1)).unwrap_or(0));
            for r in &q.recs {
                h = hash_combine(h, r.pos);
                h = hash_combine(h, r.hash ^ r.len as u64);
            }
        }
        h
    }

    pub fn num_records(&self) -> usize {
        self.queues.values().map(|q| q.recs.len()).sum()
    }

    /// Human-readable difference (first few items), or None if equal.
    pub fn diff(&self, other: &Snapshot) -> Option<String> {
        if self == other {
            return None;
        }
        let mut out = Vec::new();
        for (n, q) in &self.queues {
            match other.queues.get(n) {
                None => out.push(format!("queue {:?} only on left ({} recs, last={:?})", short(n), q.recs.len(), q.last_position)),
                Some(o) => {
                    if q.last_position != o.last_position {
                        out.push(format!("queue {:?}: last_position {:?} vs {:?}", short(n), q.last_position, o.last_position));
                    }
                    if q.recs != o.recs {
                        let lp: Vec<u64> = q.recs.iter().map(|r| r.pos).collect();
                        let rp: Vec<u64> = o.recs.iter().map(|r| r.pos).collect();
                        if lp != rp {
                            out.push(format!("queue {:?}: positions {} vs {}", short(n), span(&lp), span(&rp)));
                        } else {
                            let bad: Vec<u64> = q.recs.iter().zip(o.recs.iter()).filter(|(a, b)| a != b).map(|(a, _)| a.pos).take(5).collect();
                            out.push(format!("queue {:?}: payload differs at positions {:?}", short(n), bad));
                        }
                    }
                }
            }
        }
        for (n, q) in &other.queues {
            if !self.queues.contains_key(n) {
                out.push(format!("queue {:?} only on right ({} recs, last={:?})", short(n), q.recs.len(), q.last_position));
            }
        }
        out.truncate(6);
        Some(out.join("; "))
    }

    pub fn to_json(&self) -> Value {
        let mut m = serde_json::Map::new();
        for (n, q) in &self.queues {
            let pos: Vec<u64> = q.recs.iter().map(|r| r.pos).collect();
            m.insert(short(n), json!({"positions": span(&pos), "n": q.recs.len(), "last_position": q.last_position}));
        }
        Value::Object(m)
    }
}

pub fn short(s: &str) -> String {
    if s.len() <= 32 {
        s.to_string()
    } else {
        let cut = s.char_indices().nth(12).map(|x| x.0).unwrap_or(0);
        format!("{}..<{}B,{:08x}>", &s[..cut], s.len(), hash_bytes(s.as_bytes()) as u32)
    }
}

pub fn span(p: &[u64]) -> String {
    if p.is_empty() {
        return "[]".into();
    }
    let mut parts = Vec::new();
    let mut i = 0;
    while i < p.len() {
        let mut j = i;
        while j + 1 < p.len() && p[j + 1] == p[j] + 1 {
            j += 1;
        }
        if j > i {
            parts.push(format!("{}..={}", p[i], p[j]));
        } else {
            parts.push(format!("{}", p[i]));
        }
        i = j + 1;
        if parts.len() > 6 {
            parts.push("..".into());
            break;
        }
    }
    format!("[{}]", parts.join(","))
}

// ---------------------------------------------------------------------------------------
// Sequential specification (written from the statement of C05)

#[derive(Clone, Debug, Default, PartialEq, Eq)]
pub struct MQueue {
    pub next: u64,
    pub recs: VecDeque<(u64, Pid, u64)>, // (position, identity, payload hash)
}

#[derive(Clone, Debug, Default)]
pub struct Model {
    pub key: u64,
    pub queues: BTreeMap<String, MQueue>,
}

impl Model {
    pub fn new(key: u64) -> Model {
        Model { key, queues: BTreeMap::new() }
    }

    /// Seed a model from an observed snapshot (used after crash recovery).
    pub fn from_snapshot(key: u64, s: &Snapshot) -> Model {
        let mut m = Model::new(key);
        for (n, q) in &s.queues {
            let mut mq = MQueue { next: q.last_position.map(|p| p + 1).unwrap_or(0), recs: VecDeque::new() };
            for r in &q.recs {
                mq.recs.push_back((r.pos, Pid { op: u32::MAX, idx: 0, len: r.len }, r.hash));
            }
            m.queues.insert(n.clone(), mq);
        }
        m
    }

    /// Apply `op` (index `k`) and return the outcome the specification prescribes
    /// (byte counts are 0: the model knows nothing about the WAL).
    pub fn apply(&mut self, k: usize, op: &Op) -> Outcome {
        match op {
            Op::Create { q } => {
                if self.queues.contains_key(q) {
                    Outcome::Err(ErrKind::AlreadyExists)
                } else {
                    self.queues.insert(q.clone(), MQueue::default());
                    Outcome::Created { bytes: 0 }
                }
            }
            Op::Delete { q } => {
                if self.queues.remove(q).is_some() {
                    Outcome::Deleted { bytes: 0 }
                } else {
                    Outcome::Err(ErrKind::MissingQueue)
                }
            }
            Op::Append { q, pos, lens, .. } => {
                let key = self.key;
                let Some(mq) = self.queues.get_mut(q) else {
                    return Outcome::Err(ErrKind::MissingQueue);
                };
                if let Some(p) = pos {
                    if *p + 1 == mq.next {
                        return Outcome::Appended { last: None, bytes: 0 };
                    }
                    if *p < mq.next {
                        return Outcome::Err(ErrKind::Past);
                    }
                }
                if lens.is_empty() {
                    return Outcome::Appended { last: None, bytes: 0 };
                }
                let mut p = pos.unwrap_or(mq.next);
                for (i, l) in lens.iter().enumerate() {
                    let pid = Pid { op: k as u32, idx: i as u32, len: *l as u32 };
                    mq.recs.push_back((p, pid, payload_hash(key, pid)));
                    p += 1;
                }
                mq.next = p;
                Outcome::Appended { last: Some(p - 1), bytes: 0 }
            }
            Op::Truncate { q, pos } => {
                let Some(mq) = self.queues.get_mut(q) else {
                    return Outcome::Err(ErrKind::MissingQueue);
                };
                let mut evicted = 0;
                while let Some(front) = mq.recs.front() {
                    if front.0 <= *pos {
                        mq.recs.pop_front();
                        evicted += 1;
                    } else {
                        break;
                    }
                }
                if mq.recs.is_empty() && pos.saturating_add(1) > mq.next {
                    mq.next = pos.saturating_add(1);
                }
                Outcome::Truncated { evicted, bytes: 0 }
            }
            Op::Persist { .. } => Outcome::Persisted,
            Op::Restart => Outcome::Restarted,
        }
    }

    pub fn snapshot(&self) -> Snapshot {
        let mut queues = BTreeMap::new();
        for (n, q) in &self.queues {
            queues.insert(
                n.clone(),
                QSnap {
                    recs: q.recs.iter().map(|(p, pid, h)| Rec { pos: *p, len: pid.len, hash: *h }).collect(),
                    last_position: q.next.checked_sub(1),
                },
            );
        }
        Snapshot { queues }
    }

    pub fn range(&self, q: &str, lo: Bound<u64>, hi: Bound<u64>) -> Option<Vec<Rec>> {
        let mq = self.queues.get(q)?;
        Some(
            mq.recs
                .iter()
                .filter(|(p, _, _)| {
                    (match lo {
                        Bound::Included(a) => *p >= a,
                        Bound::Excluded(a) => *p > a,
                        Bound::Unbounded => true,
                    }) && (match hi {
                        Bound::Included(b) => *p <= b,
                        Bound::Excluded(b) => *p < b,
                        Bound::Unbounded => true,
                    })
                })
                .map(|(p, pid, h)| Rec { pos: *p, len: pid.len, hash: *h })
                .collect(),
        )
    }
}
