//! Sharding over worker processes, evidence merging, verdict discipline
//! (DESIGN.md sections 2.2 "Workers", 2.3, 5).

use std::collections::{BTreeMap, HashSet};
use std::io::Write;
use std::path::{Path, PathBuf};
use std::process::{Command, Stdio};
use std::time::{Duration, Instant};

use serde_json::{json, Map, Value};

use crate::shim;
use crate::util::Scratch;

static LAST_PANIC: std::sync::Mutex<(String, String)> = std::sync::Mutex::new((String::new(), String::new()));

#[derive(Clone, Copy, Debug, PartialEq, Eq)]
pub enum Tier {
    Quick,
    Thorough,
}

impl Tier {
    pub fn name(self) -> &'static str {
        match self {
            Tier::Quick => "quick",
            Tier::Thorough => "thorough",
        }
    }
    pub fn parse(s: &str) -> Option<Tier> {
        match s {
            "quick" => Some(Tier::Quick),
            "thorough" => Some(Tier::Thorough),
            _ => None,
        }
    }
    pub fn pick<T>(self, quick: T, thorough: T) -> T {
        match self {
            Tier::Quick => quick,
            Tier::Thorough => thorough,
        }
    }
}

/// Case ids at or above this value are executed by the dev-profile binary
/// (overflow checks + debug assertions).
pub const DEV_BASE: u64 = 1 << 40;
/// Case ids at or above this value are executed by the real-size binary (harness built
/// WITHOUT the `small` feature: 128 MiB WAL files).
pub const REAL_BASE: u64 = 1 << 41;

pub struct Ctx {
    pub prop: String,
    pub tier: Tier,
    pub seed: u64,
    pub scratch: Scratch,
    pub verif_root: PathBuf,
    pub dev_build: bool,
    pub replaying: bool,
}

impl Ctx {
    pub fn case_seed(&self, case: u64) -> [u64; 3] {
        [crate::util::hash_str(&self.prop), self.seed, case]
    }
}

#[derive(Clone, Debug)]
pub struct Violation {
    pub signature: String,
    pub case: u64,
    pub detail: Value,
}

#[derive(Default)]
pub struct Acc {
    pub counters: BTreeMap<String, u64>,
    pub distinct: HashSet<u64>,
    pub samples: Vec<Value>,
    pub violations: Vec<Violation>,
    pub known_violations: Vec<Violation>,
    pub inconclusive: Vec<String>,
    pub evaluations: u64,
    pub sample_cap: usize,
    /// signatures listed as status=known in known_findings.json: reported once, not
    /// counted against per-shard violation caps
    pub known: HashSet<String>,
    known_reported: HashSet<String>,
    /// set by a monitor whose violations are expensive to observe (a hang costs its whole
    /// CPU limit): the shard stops after the current case
    pub abort_shard: bool,
}

impl Acc {
    pub fn new() -> Acc {
        Acc { sample_cap: 2, ..Default::default() }
    }
    pub fn count(&mut self, key: &str) {
        self.add(key, 1);
    }
    pub fn add(&mut self, key: &str, n: u64) {
        *self.counters.entry(key.to_string()).or_insert(0) += n;
    }
    pub fn max(&mut self, key: &str, n: u64) {
        let e = self.counters.entry(key.to_string()).or_insert(0);
        if n > *e {
            *e = n;
        }
    }
    pub fn get(&self, key: &str) -> u64 {
        self.counters.get(key).copied().unwrap_or(0)
    }
    pub fn eval(&mut self) {
        self.evaluations += 1;
    }
    pub fn distinct(&mut self, h: u64) {
        self.distinct.insert(h);
    }
    pub fn sample(&mut self, v: impl FnOnce() -> Value) {
        if self.samples.len() < self.sample_cap {
            self.samples.push(v());
        }
    }
    /// Is this signature listed as a known finding (reported once, never counted against
    /// caps; a monitor may keep exploring the case after it)?
    pub fn is_known(&self, signature: &str) -> bool {
        self.known.contains(signature)
    }

    pub fn violation(&mut self, signature: impl Into<String>, case: u64, detail: Value) {
        let signature = signature.into();
        if self.known.contains(&signature) {
            self.count("known_finding_hits");
            if self.known_reported.insert(signature.clone()) {
                self.known_violations.push(Violation { signature, case, detail });
            }
            return;
        }
        if self.violations.len() < 200 {
            self.violations.push(Violation { signature, case, detail });
        }
        self.count("violations_seen");
    }
    pub fn inconclusive(&mut self, reason: impl Into<String>) {
        let r = reason.into();
        self.count("inconclusive_cases");
        if self.inconclusive.len() < 20 && !self.inconclusive.contains(&r) {
            self.inconclusive.push(r);
        }
    }
}

pub trait Monitor {
    fn id(&self) -> &'static str;
    fn level(&self) -> &'static str;
    /// Number of release-profile cases.
    fn num_cases(&self, tier: Tier) -> u64;
    /// Number of dev-profile cases (case ids DEV_BASE..DEV_BASE+n).
    fn num_dev_cases(&self, _tier: Tier) -> u64 {
        0
    }
    /// Number of real-size cases (case ids REAL_BASE..REAL_BASE+n), run by the binary built
    /// without the small-file hook.
    fn num_realsize_cases(&self, _tier: Tier) -> u64 {
        0
    }
    fn run_case(&self, ctx: &Ctx, case: u64, acc: &mut Acc);
    /// Coverage floors: (counter key, minimum).  Below a floor the run is inconclusive.
    fn floors(&self, _tier: Tier) -> Vec<(&'static str, u64)> {
        Vec::new()
    }
    fn rule(&self) -> String;
    fn assumptions(&self) -> Vec<String> {
        Vec::new()
    }
    /// Set when the whole explored space was enumerated completely.
    fn exhaustive(&self, _tier: Tier) -> bool {
        false
    }
    /// Is a panic of the library inside a live call / read accessor a violation of THIS
    /// property (C05: every call conforms; C10 judges panics in its own children)?
    fn library_panic_is_violation(&self) -> bool {
        false
    }
    /// Wall-clock watchdog for one shard (inconclusive when it fires).
    fn watchdog(&self, tier: Tier) -> Duration {
        Duration::from_secs(tier.pick(1500, 6 * 3600))
    }
}

pub fn verif_root() -> PathBuf {
    if let Ok(p) = std::env::var("VERIF_ROOT") {
        return PathBuf::from(p);
    }
    // <root>/target/<profile>/mrl-verif
    let exe = std::env::current_exe().expect("current_exe");
    exe.parent().and_then(|p| p.parent()).and_then(|p| p.parent()).map(|p| p.to_path_buf()).unwrap_or_else(|| PathBuf::from("/verif"))
}

pub fn nshards() -> usize {
    if let Ok(s) = std::env::var("VERIF_JOBS") {
        if let Ok(n) = s.parse::<usize>() {
            return n.max(1);
        }
    }
    std::thread::available_parallelism().map(|n| n.get()).unwrap_or(8).min(16)
}

fn is_dev_build() -> bool {
    cfg!(debug_assertions)
}

// ---------------------------------------------------------------------------------------
// Shard side

pub fn run_shard(mon: &dyn Monitor, tier: Tier, seed: u64, first: u64, step: u64, end: u64, out: &Path) -> i32 {
    let ctx = Ctx {
        prop: mon.id().to_string(),
        tier,
        seed,
        scratch: Scratch::new(mon.id()),
        verif_root: verif_root(),
        dev_build: is_dev_build(),
        replaying: false,
    };
    // library panics are caught and judged by the monitors; keep stderr quiet but remember
    // where the last one happened
    std::panic::set_hook(Box::new(|info| {
        if let Ok(mut g) = LAST_PANIC.lock() {
            let loc = info.location().map(|l| format!("{}:{}", l.file(), l.line())).unwrap_or_default();
            let msg = info.payload().downcast_ref::<String>().cloned().or_else(|| info.payload().downcast_ref::<&str>().map(|s| s.to_string())).unwrap_or_default();
            *g = (loc, msg);
        }
    }));
    let mut acc = Acc::new();
    if let Ok(k) = load_known(&ctx.verif_root, mon.id()) {
        acc.known = k.into_iter().filter(|k| k.status == "known").map(|k| k.signature).collect();
    }
    let started = Instant::now();
    let mut case = first;
    let mut ncases = 0u64;
    while case < end {
        let r = std::panic::catch_unwind(std::panic::AssertUnwindSafe(|| mon.run_case(&ctx, case, &mut acc)));
        if r.is_err() {
            // a panic escaped a monitor: either the library panicked inside a read accessor /
            // call the monitor did not guard, or the harness itself is wrong
            let (loc, msg) = LAST_PANIC.lock().map(|g| g.clone()).unwrap_or_default();
            // the harness's own locations are relative ("src/monitors/..."), std's start with
            // /rustc/, registry crates live under .cargo: an absolute path outside those is
            // the path dependency, i.e. the library under test
            let in_library = loc.starts_with('/') && !loc.starts_with("/rustc/") && !loc.contains("/.cargo/");
            let short_loc = loc.rsplit_once("/src/").map(|x| format!("src/{}", x.1)).unwrap_or(loc.clone());
            if in_library && mon.library_panic_is_violation() {
                acc.violation(
                    format!("{}/library-panicked/{} @ {}", mon.id(), msg.chars().take(80).collect::<String>(), short_loc),
                    case,
                    json!({"panic": msg, "location": loc, "note": "the library panicked inside a call or read accessor during this case"}),
                );
            } else if in_library {
                acc.inconclusive(format!("the library panicked at {} ({}): C05/C10 territory", short_loc, msg.chars().take(60).collect::<String>()));
            } else {
                acc.inconclusive(format!("HARNESS BUG: monitor panicked at {} ({})", loc, msg.chars().take(80).collect::<String>()));
                acc.count("harness_panics");
            }
            shim::pause(true);
        }
        ncases += 1;
        case += step;
        if acc.abort_shard {
            break;
        }
    }
    acc.add("cases", ncases);
    write_shard(&acc, out, started.elapsed().as_secs_f64());
    0
}

fn write_shard(acc: &Acc, out: &Path, wall: f64) {
    let mut viol = Vec::new();
    for v in acc.violations.iter().chain(acc.known_violations.iter()) {
        viol.push(json!({"signature": v.signature, "case": v.case, "detail": v.detail}));
    }
    let doc = json!({
        "counters": acc.counters,
        "samples": acc.samples,
        "violations": viol,
        "inconclusive": acc.inconclusive,
        "evaluations": acc.evaluations,
        "wall_s": wall,
    });
    let mut d: Vec<u64> = acc.distinct.iter().copied().collect();
    d.sort_unstable();
    let mut bytes = Vec::with_capacity(d.len() * 8);
    for x in d {
        bytes.extend_from_slice(&x.to_le_bytes());
    }
    std::fs::write(out.with_extension("distinct"), bytes).expect("write distinct");
    let tmp = out.with_extension("tmp");
    std::fs::write(&tmp, serde_json::to_vec(&doc).unwrap()).expect("write shard result");
    std::fs::rename(&tmp, out).expect("rename shard result");
}

// ---------------------------------------------------------------------------------------
// Parent side

struct Known {
    status: String,
    signature: String,
    what: String,
}

fn load_known(root: &Path, prop: &str) -> Result<Vec<Known>, String> {
    let p = root.join("known_findings.json");
    let Ok(txt) = std::fs::read_to_string(&p) else {
        return Ok(Vec::new());
    };
    let v: Value = serde_json::from_str(&txt).map_err(|e| format!("known_findings.json: {}", e))?;
    let mut out = Vec::new();
    for e in v.get("findings").and_then(|x| x.as_array()).cloned().unwrap_or_default() {
        if e.get("property").and_then(|x| x.as_str()) == Some(prop) {
            out.push(Known {
                status: e.get("status").and_then(|x| x.as_str()).unwrap_or("").to_string(),
                signature: e.get("signature").and_then(|x| x.as_str()).unwrap_or("").to_string(),
                what: e.get("what").and_then(|x| x.as_str()).unwrap_or("").to_string(),
            });
        }
    }
    Ok(out)
}

pub fn run_parent(mon: &dyn Monitor, tier: Tier, seed: u64) -> i32 {
    let started = Instant::now();
    let root = verif_root();
    let id = mon.id();
    let evidence_dir = root.join("evidence");
    let replay_dir = evidence_dir.join("replays");
    std::fs::create_dir_all(&replay_dir).ok();
    let shard_dir = evidence_dir.join("shards").join(format!("{}-{}", id, std::process::id()));
    let _ = std::fs::remove_dir_all(&shard_dir);
    std::fs::create_dir_all(&shard_dir).expect("create shard dir");
    let evidence_path = evidence_dir.join(format!("{}.json", id));
    let _ = std::fs::remove_file(&evidence_path);

    let exe = std::env::current_exe().expect("current_exe");
    let dev_exe = std::env::var("VERIF_DEV_BIN").ok().map(PathBuf::from).filter(|p| p.exists());
    let n = nshards() as u64;
    let ncases = mon.num_cases(tier);
    let ndev = mon.num_dev_cases(tier);
    let mut hard_inconclusive: Vec<String> = Vec::new();

    struct Job {
        child: std::process::Child,
        out: PathBuf,
        label: String,
    }
    let mut jobs: Vec<Job> = Vec::new();
    let spawn = |bin: &Path, first: u64, step: u64, end: u64, label: String, jobs: &mut Vec<Job>| {
        let out = shard_dir.join(format!("{}.json", label));
        let child = Command::new(bin)
            .arg("__shard")
            .arg(id)
            .arg(tier.name())
            .arg(seed.to_string())
            .arg(first.to_string())
            .arg(step.to_string())
            .arg(end.to_string())
            .arg(&out)
            .env("VERIF_ROOT", &root)
            .stdin(Stdio::null())
            .stdout(Stdio::inherit())
            .stderr(Stdio::inherit())
            .spawn()
            .expect("spawn shard");
        jobs.push(Job { child, out, label });
    };
    let nrel = n.min(ncases.max(1));
    for i in 0..nrel {
        spawn(&exe, i, nrel, ncases, format!("rel-{}", i), &mut jobs);
    }
    if ndev > 0 {
        match &dev_exe {
            Some(d) => {
                let nd = (n / 2).max(1).min(ndev);
                for i in 0..nd {
                    spawn(d, DEV_BASE + i, nd, DEV_BASE + ndev, format!("dev-{}", i), &mut jobs);
                }
            }
            None => hard_inconclusive.push("dev-profile binary not available (VERIF_DEV_BIN)".into()),
        }
    }

    let nreal = mon.num_realsize_cases(tier);
    if nreal > 0 {
        match std::env::var("VERIF_REALSIZE_BIN").ok().map(PathBuf::from).filter(|p| p.exists()) {
            Some(bin) => {
                // few workers: every case keeps several 128 MiB files on tmpfs
                let nr = 4u64.min(nreal);
                for i in 0..nr {
                    spawn(&bin, REAL_BASE + i, nr, REAL_BASE + nreal, format!("real-{}", i), &mut jobs);
                }
            }
            None => hard_inconclusive.push("real-size binary not available (VERIF_REALSIZE_BIN)".into()),
        }
    }
    // wait with a generous wall-clock watchdog (firing => inconclusive, never violation)
    let deadline = Instant::now() + mon.watchdog(tier);
    let mut merged = Acc::new();
    merged.sample_cap = 6;
    let mut shard_walls = Vec::new();
    for job in jobs.iter_mut() {
        let status = loop {
            match job.child.try_wait() {
                Ok(Some(st)) => break Some(st),
                Ok(None) => {
                    if Instant::now() > deadline {
                        let _ = job.child.kill();
                        let _ = job.child.wait();
                        break None;
                    }
                    std::thread::sleep(Duration::from_millis(20));
                }
                Err(_) => break None,
            }
        };
        match status {
            None => hard_inconclusive.push(format!("shard {} hit the wall-clock watchdog", job.label)),
            Some(st) if !st.success() => {
                hard_inconclusive.push(format!("shard {} died: {:?} (harness error, not a verdict)", job.label, st))
            }
            Some(_) => {}
        }
        let Ok(txt) = std::fs::read(&job.out) else {
            if status.map(|s| s.success()).unwrap_or(false) {
                hard_inconclusive.push(format!("shard {} wrote no result", job.label));
            }
            continue;
        };
        let v: Value = match serde_json::from_slice(&txt) {
            Ok(v) => v,
            Err(e) => {
                hard_inconclusive.push(format!("shard {} result unreadable: {}", job.label, e));
                continue;
            }
        };
        if let Some(c) = v["counters"].as_object() {
            for (k, x) in c {
                let x = x.as_u64().unwrap_or(0);
                if k.starts_with("max_") {
                    merged.max(k, x);
                } else {
                    merged.add(k, x);
                }
            }
        }
        merged.evaluations += v["evaluations"].as_u64().unwrap_or(0);
        if let Some(s) = v["samples"].as_array() {
            for x in s {
                if merged.samples.len() < merged.sample_cap {
                    merged.samples.push(x.clone());
                }
            }
        }
        if let Some(s) = v["inconclusive"].as_array() {
            for x in s {
                let r = x.as_str().unwrap_or("").to_string();
                if !merged.inconclusive.contains(&r) {
                    merged.inconclusive.push(r);
                }
            }
        }
        if let Some(s) = v["violations"].as_array() {
            for x in s {
                merged.violations.push(Violation {
                    signature: x["signature"].as_str().unwrap_or("").to_string(),
                    case: x["case"].as_u64().unwrap_or(0),
                    detail: x["detail"].clone(),
                });
            }
        }
        shard_walls.push(v["wall_s"].as_f64().unwrap_or(0.0));
        if let Ok(bytes) = std::fs::read(job.out.with_extension("distinct")) {
            for c in bytes.chunks_exact(8) {
                merged.distinct.insert(u64::from_le_bytes(c.try_into().unwrap()));
            }
        }
    }
    let _ = std::fs::remove_dir_all(&shard_dir);

    // classify violations against the committed known-findings file
    let known = match load_known(&root, id) {
        Ok(k) => k,
        Err(e) => {
            hard_inconclusive.push(e);
            Vec::new()
        }
    };
    let mut new_violations: Vec<(Violation, PathBuf)> = Vec::new();
    let mut known_hits: BTreeMap<String, (u64, String)> = BTreeMap::new();
    for v in &merged.violations {
        if let Some(k) = known.iter().find(|k| k.status == "known" && k.signature == v.signature) {
            let e = known_hits.entry(k.signature.clone()).or_insert((0, k.what.clone()));
            e.0 += 1;
            continue;
        }
        let path = replay_dir.join(format!("{}-s{}-c{}.json", id, seed, v.case));
        let doc = json!({
            "property": id, "tier": tier.name(), "seed": seed, "case": v.case,
            "signature": v.signature, "detail": v.detail,
            "replay": format!("./check {} --replay {}", id, path.display()),
        });
        let _ = std::fs::write(&path, serde_json::to_vec_pretty(&doc).unwrap());
        new_violations.push((v.clone(), path));
    }

    // auxiliary sanitizer legs (thorough tier of C05 / C07 / C10): Miri + valgrind memcheck
    let mut sanitizer = serde_json::Map::new();
    if tier == Tier::Thorough && matches!(id, "C05" | "C07" | "C10") && std::env::var("VERIF_SANITIZERS").map(|v| v != "0").unwrap_or(true) {
        let script = root.join("tools/sanitizers.sh");
        match Command::new(&script).arg(id).arg(seed.to_string()).stdin(Stdio::null()).stderr(Stdio::null()).output() {
            Ok(o) => {
                let txt = String::from_utf8_lossy(&o.stdout).to_string();
                let mut runs = Vec::new();
                let (mut ok, mut rep, mut skip) = (0u64, 0u64, 0u64);
                for l in txt.lines().filter(|l| l.starts_with("SAN ")) {
                    let f: Vec<&str> = l.splitn(6, ' ').collect();
                    if f.len() >= 5 {
                        match f[4] {
                            "ok" => ok += 1,
                            "REPORT" => {
                                rep += 1;
                                hard_inconclusive.push(format!("SANITIZER-REPORT {}", l));
                            }
                            _ => skip += 1,
                        }
                        runs.push(json!(l));
                    }
                }
                sanitizer.insert("runs".into(), Value::Array(runs));
                sanitizer.insert("ok".into(), json!(ok));
                sanitizer.insert("reports".into(), json!(rep));
                sanitizer.insert("skipped".into(), json!(skip));
                sanitizer.insert("note".into(), json!("auxiliary: a sanitizer report makes the run inconclusive, it cannot decide the property"));
            }
            Err(e) => {
                sanitizer.insert("note".into(), json!(format!("sanitizer script could not be run: {}", e)));
            }
        }
    }
    if merged.get("harness_panics") > 0 {
        hard_inconclusive.push(format!("{} case(s) ended in a panic inside the harness itself (see inconclusive_case_reasons)", merged.get("harness_panics")));
    }
    // floors
    let mut floor_report = Map::new();
    let mut floors_ok = true;
    for (k, min) in mon.floors(tier) {
        let got = merged.get(k);
        floor_report.insert(k.to_string(), json!({"min": min, "observed": got, "met": got >= min}));
        if got < min {
            floors_ok = false;
            hard_inconclusive.push(format!("coverage floor not reached: {} = {} < {}", k, got, min));
        }
    }
    let _ = floors_ok;
    for r in &merged.inconclusive {
        // per-case inconclusive outcomes are reported but only the floors decide the run
        let _ = r;
    }

    let wall = started.elapsed().as_secs_f64();
    let distinct = merged.distinct.len() as u64;
    let mut coverage = Map::new();
    coverage.insert("evaluations".into(), json!(merged.evaluations));
    coverage.insert("distinct_nontrivial".into(), json!(distinct));
    coverage.insert("rule".into(), json!(mon.rule()));
    if merged.samples.is_empty() {
        // every run must show at least one explored case: fall back to a violating one
        if let Some(v) = merged.violations.first() {
            merged.samples.push(json!({"case": v.case, "violating_case_signature": v.signature, "detail": v.detail}));
        } else {
            merged.samples.push(json!({"note": "no case ran to completion in this run"}));
        }
    }
    coverage.insert("samples".into(), Value::Array(merged.samples.clone()));
    if mon.exhaustive(tier) {
        coverage.insert("exhaustive".into(), json!(true));
    }
    coverage.insert("observed".into(), json!(merged.counters));
    coverage.insert("floors".into(), Value::Object(floor_report));
    if !sanitizer.is_empty() {
        coverage.insert("sanitizer_legs".into(), Value::Object(sanitizer));
    }
    coverage.insert("inconclusive_case_reasons".into(), json!(merged.inconclusive));
    coverage.insert("run_inconclusive_reasons".into(), json!(hard_inconclusive));
    coverage.insert("known_findings_hit".into(), json!(known_hits.iter().map(|(k, v)| json!({"signature": k, "count": v.0})).collect::<Vec<_>>()));
    coverage.insert("shards".into(), json!({"release": nrel, "dev": if ndev > 0 && dev_exe.is_some() { (n / 2).max(1).min(ndev) } else { 0 }, "cases_release": ncases, "cases_dev": ndev, "max_shard_wall_s": shard_walls.iter().cloned().fold(0.0, f64::max)}));
    let verdict = if !new_violations.is_empty() {
        "violated"
    } else if !hard_inconclusive.is_empty() {
        "inconclusive"
    } else {
        "held_on_observed"
    };
    coverage.insert("verdict".into(), json!(verdict));
    let evidence = json!({
        "property_id": id,
        "tier": tier.name(),
        "seed": seed,
        "level": mon.level(),
        "coverage": Value::Object(coverage),
        "assumptions": mon.assumptions(),
        "wall_s": wall,
        "violations": new_violations.len(),
    });
    std::fs::create_dir_all(&evidence_dir).ok();
    let tmp = evidence_path.with_extension("json.tmp");
    std::fs::write(&tmp, serde_json::to_vec_pretty(&evidence).unwrap()).expect("write evidence");
    std::fs::rename(&tmp, &evidence_path).expect("rename evidence");

    let so = std::io::stdout();
    let mut so = so.lock();
    let _ = writeln!(
        so,
        "{} {} seed={} evaluations={} distinct_nontrivial={} wall={:.1}s verdict={}",
        id, tier.name(), seed, merged.evaluations, distinct, wall, verdict
    );
    for (k, v) in &merged.counters {
        let _ = writeln!(so, "  observed {} = {}", k, v);
    }
    for (sig, (cnt, what)) in &known_hits {
        let _ = writeln!(so, "KNOWN-FINDING: property={} {} [signature={} hits={}]", id, what, sig, cnt);
    }
    if !new_violations.is_empty() {
        let mut seen = HashSet::new();
        let mut printed = 0;
        for (v, path) in &new_violations {
            if printed >= 25 {
                break;
            }
            if !seen.insert(v.signature.clone()) && printed >= 5 {
                continue;
            }
            let _ = writeln!(so, "VIOLATION property={} replay={}", id, path.display());
            let _ = writeln!(so, "  signature: {}", v.signature);
            printed += 1;
        }
        let _ = writeln!(so, "{} violation(s) in total, {} distinct signature(s)", new_violations.len(), new_violations.iter().map(|x| &x.0.signature).collect::<HashSet<_>>().len());
        return 1;
    }
    if !hard_inconclusive.is_empty() {
        for r in &hard_inconclusive {
            let _ = writeln!(so, "INCONCLUSIVE property={} reason={}", id, r);
        }
        return 2;
    }
    0
}

/// Re-execute the case recorded in a replay file.
pub fn run_replay(mon: &dyn Monitor, file: &Path) -> i32 {
    let txt = match std::fs::read_to_string(file) {
        Ok(t) => t,
        Err(e) => {
            println!("INCONCLUSIVE property={} reason=cannot read replay file: {}", mon.id(), e);
            return 2;
        }
    };
    let v: Value = match serde_json::from_str(&txt) {
        Ok(v) => v,
        Err(e) => {
            println!("INCONCLUSIVE property={} reason=bad replay file: {}", mon.id(), e);
            return 2;
        }
    };
    let seed = v["seed"].as_u64().unwrap_or(1);
    let case = v["case"].as_u64().unwrap_or(0);
    let tier = Tier::parse(v["tier"].as_str().unwrap_or("quick")).unwrap_or(Tier::Quick);
    if case >= DEV_BASE && !is_dev_build() {
        if let Some(d) = std::env::var("VERIF_DEV_BIN").ok().map(PathBuf::from).filter(|p| p.exists()) {
            let st = Command::new(d).arg(mon.id()).arg("--replay").arg(file).status();
            return st.ok().and_then(|s| s.code()).unwrap_or(2);
        }
        println!("INCONCLUSIVE property={} reason=dev-profile binary needed for this replay", mon.id());
        return 2;
    }
    let ctx = Ctx {
        prop: mon.id().to_string(),
        tier,
        seed,
        scratch: Scratch::new("replay"),
        verif_root: verif_root(),
        dev_build: is_dev_build(),
        replaying: true,
    };
    let mut acc = Acc::new();
    mon.run_case(&ctx, case, &mut acc);
    println!("replayed {} case {} seed {}: {} violation(s)", mon.id(), case, seed, acc.violations.len());
    for v in &acc.violations {
        println!("  signature: {}", v.signature);
        println!("  detail: {}", serde_json::to_string_pretty(&v.detail).unwrap_or_default());
    }
    if !acc.violations.is_empty() {
        println!("VIOLATION property={} replay={}", mon.id(), file.display());
        return 1;
    }
    0
}
