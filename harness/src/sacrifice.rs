//! Sacrificial child processes (fork per case): the child may panic, abort, exhaust a
//! logical syscall budget, a CPU-time limit or an allocation cap without taking the
//! shard down.  Shards are single-threaded, so fork() is safe here.

use std::io::Read;
use std::os::unix::io::FromRawFd;
use std::panic::{catch_unwind, AssertUnwindSafe};

#[derive(Debug, Clone, PartialEq, Eq)]
pub enum ChildEnd {
    /// exit code + bytes written by the closure
    Exited(i32, Vec<u8>),
    Signaled(i32),
    /// wall-clock watchdog (never a verdict)
    TimedOut,
    /// the child slept in a system call without consuming any CPU for BLOCKED_SECS seconds:
    /// it is blocked for ever (e.g. reading a FIFO nobody writes to)
    Blocked,
    ForkFailed,
}

pub const BLOCKED_SECS: u32 = 12;

/// (state, utime + stime in clock ticks) of a process, from /proc.
fn proc_state(pid: i32) -> Option<(char, u64)> {
    let s = std::fs::read_to_string(format!("/proc/{}/stat", pid)).ok()?;
    let rest = &s[s.rfind(')')? + 2..];
    let f: Vec<&str> = rest.split_whitespace().collect();
    let state = f.first()?.chars().next()?;
    let utime: u64 = f.get(11)?.parse().ok()?;
    let stime: u64 = f.get(12)?.parse().ok()?;
    Some((state, utime + stime))
}

pub const EXIT_PANIC: i32 = 101;
pub const EXIT_BUDGET: i32 = 97;
pub const EXIT_ALLOC_CAP: i32 = 98;

/// Run `f` in a forked child with a CPU-time limit.  The closure's bytes come back through
/// a pipe.  A panic inside `f` yields Exited(EXIT_PANIC, message).
pub fn in_child(cpu_secs: u64, wall_secs: u64, f: impl FnOnce() -> Vec<u8>) -> ChildEnd {
    let mut fds = [0i32; 2];
    if unsafe { libc::pipe(fds.as_mut_ptr()) } != 0 {
        return ChildEnd::ForkFailed;
    }
    let pid = unsafe { libc::fork() };
    if pid < 0 {
        unsafe {
            libc::close(fds[0]);
            libc::close(fds[1]);
        }
        return ChildEnd::ForkFailed;
    }
    if pid == 0 {
        // child
        unsafe {
            libc::close(fds[0]);
            let lim = libc::rlimit { rlim_cur: cpu_secs, rlim_max: cpu_secs + 2 };
            libc::setrlimit(libc::RLIMIT_CPU, &lim);
            // no core files
            let zero = libc::rlimit { rlim_cur: 0, rlim_max: 0 };
            libc::setrlimit(libc::RLIMIT_CORE, &zero);
        }
        static LOC: std::sync::Mutex<String> = std::sync::Mutex::new(String::new());
        std::panic::set_hook(Box::new(|info| {
            if let (Some(l), Ok(mut g)) = (info.location(), LOC.lock()) {
                // keep the path relative to the crate so signatures are stable
                let f = l.file();
                let f = f.rsplit_once("/src/").map(|x| x.1).unwrap_or(f);
                *g = format!("src/{}:{}", f, l.line());
            }
        }));
        let r = catch_unwind(AssertUnwindSafe(f));
        let (code, bytes) = match r {
            Ok(b) => (0, b),
            Err(p) => {
                let msg = p.downcast_ref::<String>().cloned().or_else(|| p.downcast_ref::<&str>().map(|s| s.to_string())).unwrap_or_else(|| "panic".into());
                let loc = LOC.lock().map(|g| g.clone()).unwrap_or_default();
                (EXIT_PANIC, format!("{} @ {}", msg, loc).into_bytes())
            }
        };
        unsafe {
            let mut off = 0usize;
            while off < bytes.len() {
                let n = libc::write(fds[1], bytes[off..].as_ptr() as *const libc::c_void, bytes.len() - off);
                if n <= 0 {
                    break;
                }
                off += n as usize;
            }
            libc::close(fds[1]);
            libc::_exit(code);
        }
    }
    // parent
    unsafe { libc::close(fds[1]) };
    let mut out = Vec::new();
    let mut timed_out = false;
    let mut blocked = false;
    let mut idle_secs = 0u32;
    let mut last_cpu = u64::MAX;
    {
        let mut pfd = libc::pollfd { fd: fds[0], events: libc::POLLIN, revents: 0 };
        let deadline = std::time::Instant::now() + std::time::Duration::from_secs(wall_secs);
        let mut file = unsafe { std::fs::File::from_raw_fd(fds[0]) };
        let mut buf = [0u8; 65536];
        loop {
            let left = deadline.saturating_duration_since(std::time::Instant::now());
            if left.is_zero() {
                timed_out = true;
                break;
            }
            let r = unsafe { libc::poll(&mut pfd, 1, left.as_millis().min(1000) as i32) };
            if r < 0 {
                continue;
            }
            if r == 0 {
                // one second without output: is the child asleep in a system call with no CPU
                // progress at all?  (A runnable child starved of CPU is in state R, not S.)
                match proc_state(pid) {
                    Some(('S', cpu)) if cpu == last_cpu => idle_secs += 1,
                    Some((_, cpu)) => {
                        idle_secs = 0;
                        last_cpu = cpu;
                    }
                    None => {}
                }
                if idle_secs >= BLOCKED_SECS {
                    blocked = true;
                    break;
                }
                continue;
            }
            match file.read(&mut buf) {
                Ok(0) => break,
                Ok(n) => out.extend_from_slice(&buf[..n]),
                Err(e) if e.kind() == std::io::ErrorKind::Interrupted => continue,
                Err(_) => break,
            }
        }
    }
    if timed_out || blocked {
        unsafe {
            libc::kill(pid, libc::SIGKILL);
            let mut st = 0;
            libc::waitpid(pid, &mut st, 0);
        }
        return if blocked { ChildEnd::Blocked } else { ChildEnd::TimedOut };
    }
    let mut st = 0;
    loop {
        let r = unsafe { libc::waitpid(pid, &mut st, 0) };
        if r == pid {
            break;
        }
        if r < 0 && std::io::Error::last_os_error().kind() != std::io::ErrorKind::Interrupted {
            return ChildEnd::ForkFailed;
        }
    }
    if libc::WIFEXITED(st) {
        ChildEnd::Exited(libc::WEXITSTATUS(st), out)
    } else if libc::WIFSIGNALED(st) {
        ChildEnd::Signaled(libc::WTERMSIG(st))
    } else {
        ChildEnd::ForkFailed
    }
}
