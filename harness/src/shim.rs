//! Binding to the LD_PRELOAD syscall-boundary monitor (shim/iotrace.c) and a typed view
//! of its events.

use std::ffi::{CStr, CString};
use std::os::raw::{c_char, c_int, c_long};
use std::path::Path;
use std::sync::OnceLock;

pub const NCLASS: usize = 13;
pub const CL_OPENDIR: usize = 0;
pub const CL_READDIR: usize = 1;
pub const CL_OPEN_FILE: usize = 2;
pub const CL_OPEN_DIRFD: usize = 3;
pub const CL_READ: usize = 4;
pub const CL_WRITE: usize = 5;
pub const CL_LSEEK: usize = 6;
pub const CL_FTRUNCATE: usize = 7;
pub const CL_FSYNC: usize = 8;
pub const CL_UNLINK: usize = 9;
pub const CL_CLOSE: usize = 10;
pub const CL_STAT: usize = 12;
pub const CLASS_NAMES: [&str; NCLASS] = [
    "opendir", "readdir", "open_file", "open_dirfd", "read", "write", "lseek", "ftruncate",
    "fsync", "unlink", "close", "other", "stat",
];

pub const MARK_BEGIN: u32 = 1;
pub const MARK_END: u32 = 2;

struct Api {
    set_root: unsafe extern "C" fn(*const c_char),
    pause: unsafe extern "C" fn(c_int),
    reset: unsafe extern "C" fn(),
    reset_all: unsafe extern "C" fn(),
    mark: unsafe extern "C" fn(u32, u64),
    events: unsafe extern "C" fn(*mut *const u8, *mut usize),
    path: unsafe extern "C" fn(i32) -> *const c_char,
    fault: unsafe extern "C" fn(c_int, c_long, c_int, c_int),
    budget: unsafe extern "C" fn(c_long),
    counts: unsafe extern "C" fn(*mut c_long),
    total: unsafe extern "C" fn() -> c_long,
    unmodelled: unsafe extern "C" fn() -> c_long,
    delivered: unsafe extern "C" fn() -> c_long,
    dt_unknown: unsafe extern "C" fn(c_int),
}

static API: OnceLock<Option<Api>> = OnceLock::new();

unsafe fn sym<T: Copy>(name: &str) -> Option<T> {
    let c = CString::new(name).unwrap();
    let p = libc::dlsym(libc::RTLD_DEFAULT, c.as_ptr());
    if p.is_null() {
        None
    } else {
        Some(std::mem::transmute_copy::<*mut libc::c_void, T>(&p))
    }
}

fn api() -> Option<&'static Api> {
    API.get_or_init(|| unsafe {
        Some(Api {
            set_root: sym("iot_set_root")?,
            pause: sym("iot_pause")?,
            reset: sym("iot_reset")?,
            reset_all: sym("iot_reset_all")?,
            mark: sym("iot_mark")?,
            events: sym("iot_events")?,
            path: sym("iot_path")?,
            fault: sym("iot_fault")?,
            budget: sym("iot_budget")?,
            counts: sym("iot_counts")?,
            total: sym("iot_total")?,
            unmodelled: sym("iot_unmodelled")?,
            delivered: sym("iot_delivered")?,
            dt_unknown: sym("iot_dt_unknown")?,
        })
    })
    .as_ref()
}

pub fn present() -> bool {
    api().is_some()
}

fn must() -> &'static Api {
    api().expect("iotrace shim not loaded (LD_PRELOAD)")
}

pub fn set_root(p: &Path) {
    let c = CString::new(p.to_str().unwrap()).unwrap();
    unsafe { (must().set_root)(c.as_ptr()) }
}
pub fn pause(on: bool) {
    unsafe { (must().pause)(on as c_int) }
}
pub fn reset() {
    unsafe { (must().reset)() }
}
pub fn reset_all() {
    unsafe { (must().reset_all)() }
}
pub fn mark(kind: u32, id: u64) {
    unsafe { (must().mark)(kind, id) }
}
pub fn fault(class: usize, nth: i64, errno: i32, persistent: bool) {
    unsafe { (must().fault)(class as c_int, nth as c_long, errno, persistent as c_int) }
}
/// "Bad sector" model: the nth traced read is served short (half of what was asked) and the
/// read that follows fails with `errno`.
pub fn fault_short_read_then_error(nth: i64, errno: i32) {
    unsafe { (must().fault)(CL_READ as c_int, nth as c_long, errno, 2) }
}
/// Every traced write(2) from the nth on is served short (half of what was asked) and returns
/// that count without an error.
pub fn fault_short_writes(nth: i64) {
    unsafe { (must().fault)(CL_WRITE as c_int, nth as c_long, 0, 3) }
}
pub fn budget(max_calls: i64) {
    unsafe { (must().budget)(max_calls as c_long) }
}
pub fn counts() -> [i64; NCLASS] {
    let mut out = [0 as c_long; NCLASS];
    unsafe { (must().counts)(out.as_mut_ptr()) };
    let mut r = [0i64; NCLASS];
    for i in 0..NCLASS {
        r[i] = out[i] as i64;
    }
    r
}
pub fn total() -> i64 {
    unsafe { (must().total)() as i64 }
}
/// Number of injected errors that were actually returned to the caller.
pub fn delivered() -> i64 {
    unsafe { (must().delivered)() as i64 }
}
/// Hostile-but-legal file system: every directory entry under the root is reported with
/// d_type = DT_UNKNOWN (the caller then has to stat it to learn its type).
pub fn dt_unknown(on: bool) {
    unsafe { (must().dt_unknown)(on as c_int) }
}
pub fn unmodelled() -> i64 {
    unsafe { (must().unmodelled)() as i64 }
}

/// Run `f` with tracing enabled.
pub fn traced<T>(f: impl FnOnce() -> T) -> T {
    pause(false);
    let r = f();
    pause(true);
    r
}

#[derive(Clone, Debug, PartialEq, Eq)]
pub enum Ev {
    Open { name: String, fd: i32, flags: u32, err: i32 },
    Close { name: String, fd: i32 },
    Read { name: String, off: u64, len: u64, ret: i64, err: i32 },
    Write { name: String, off: u64, data: Vec<u8>, req: u64, err: i32 },
    Lseek { name: String, off: i64, whence: u32, ret: i64 },
    Ftruncate { name: String, len: u64, err: i32 },
    Fsync { name: String, data_only: bool, err: i32 },
    Unlink { name: String, err: i32 },
    OpenDir { name: String, err: i32 },
    ReadDir { entry: Option<String>, err: i32 },
    CloseDir,
    Rename { from: String, to: String },
    Mkdir { name: String },
    Rmdir { name: String },
    Mark { kind: u32, id: u64 },
    Unmodelled { what: String, name: String },
    /// stat / lstat / fstat / statx on a path or fd under the root
    Stat { name: String, err: i32 },
}

impl Ev {
    pub fn kind_name(&self) -> &'static str {
        match self {
            Ev::Open { flags, .. } => {
                if flags & (libc::O_CREAT as u32) != 0 {
                    "create"
                } else {
                    "open"
                }
            }
            Ev::Close { .. } => "close",
            Ev::Read { .. } => "read",
            Ev::Write { .. } => "write",
            Ev::Lseek { .. } => "lseek",
            Ev::Ftruncate { .. } => "ftruncate",
            Ev::Fsync { .. } => "fsync",
            Ev::Unlink { .. } => "unlink",
            Ev::OpenDir { .. } => "opendir",
            Ev::ReadDir { .. } => "readdir",
            Ev::CloseDir => "closedir",
            Ev::Rename { .. } => "rename",
            Ev::Mkdir { .. } => "mkdir",
            Ev::Rmdir { .. } => "rmdir",
            Ev::Mark { .. } => "mark",
            Ev::Unmodelled { .. } => "unmodelled",
            Ev::Stat { .. } => "stat",
        }
    }
    /// Does this event change the directory image?
    pub fn mutates(&self) -> bool {
        match self {
            Ev::Open { flags, err, .. } => *err == 0 && flags & (libc::O_CREAT as u32) != 0,
            Ev::Write { data, .. } => !data.is_empty(),
            Ev::Ftruncate { err, .. } => *err == 0,
            Ev::Unlink { err, .. } => *err == 0,
            Ev::Rename { .. } | Ev::Mkdir { .. } | Ev::Rmdir { .. } | Ev::Unmodelled { .. } => true,
            _ => false,
        }
    }
    /// Short human-readable form (write payloads elided).
    pub fn brief(&self) -> String {
        match self {
            Ev::Write { name, off, data, .. } => format!("write {} @{} +{}", name, off, data.len()),
            Ev::Read { name, off, len, ret, err } => {
                format!("read {} @{} {} -> {} e{}", name, off, len, ret, err)
            }
            other => format!("{:?}", other),
        }
    }
}

const EV_SIZE: usize = 48;

/// Copy out the recorded events.  Paths are returned relative to the registered root
/// (basename for direct children, "." for the root itself).
pub fn take_events(root: &Path) -> Vec<Ev> {
    let mut p: *const u8 = std::ptr::null();
    let mut len: usize = 0;
    unsafe { (must().events)(&mut p, &mut len) };
    let buf: &[u8] = if len == 0 { &[] } else { unsafe { std::slice::from_raw_parts(p, len) } };
    let root_s = root.to_str().unwrap();
    let rel = |id: i32| -> String {
        if id < 0 {
            return String::new();
        }
        let c = unsafe { CStr::from_ptr((must().path)(id)) };
        let s = c.to_string_lossy().into_owned();
        if let Some(rest) = s.strip_prefix(root_s) {
            let rest = rest.trim_start_matches('/');
            if rest.is_empty() {
                ".".to_string()
            } else {
                rest.to_string()
            }
        } else {
            s
        }
    };
    let mut out = Vec::new();
    let mut i = 0usize;
    while i + EV_SIZE <= buf.len() {
        let b = &buf[i..i + EV_SIZE];
        let kind = u32::from_le_bytes(b[0..4].try_into().unwrap());
        let fd = i32::from_le_bytes(b[4..8].try_into().unwrap());
        let path_id = i32::from_le_bytes(b[8..12].try_into().unwrap());
        let err = i32::from_le_bytes(b[12..16].try_into().unwrap());
        let ret = i64::from_le_bytes(b[16..24].try_into().unwrap());
        let off = u64::from_le_bytes(b[24..32].try_into().unwrap());
        let l = u64::from_le_bytes(b[32..40].try_into().unwrap());
        let flags = u32::from_le_bytes(b[40..44].try_into().unwrap());
        let datalen = u32::from_le_bytes(b[44..48].try_into().unwrap()) as usize;
        let data = &buf[i + EV_SIZE..i + EV_SIZE + datalen];
        i += EV_SIZE + datalen;
        let ev = match kind {
            1 => Ev::Open { name: rel(path_id), fd, flags, err },
            2 => Ev::Close { name: rel(path_id), fd },
            3 => Ev::Read { name: rel(path_id), off, len: l, ret, err },
            4 => Ev::Write { name: rel(path_id), off, data: data.to_vec(), req: l, err },
            5 => Ev::Lseek { name: rel(path_id), off: off as i64, whence: flags, ret },
            6 => Ev::Ftruncate { name: rel(path_id), len: l, err },
            7 => Ev::Fsync { name: rel(path_id), data_only: flags != 0, err },
            8 => Ev::Unlink { name: rel(path_id), err },
            9 => Ev::OpenDir { name: rel(path_id), err },
            10 => Ev::ReadDir {
                entry: if ret != 0 { Some(String::from_utf8_lossy(data).into_owned()) } else { None },
                err,
            },
            11 => Ev::Rename { from: rel(path_id), to: String::from_utf8_lossy(data).into_owned() },
            12 => Ev::Mark { kind: flags, id: off },
            13 => Ev::Unmodelled {
                what: String::from_utf8_lossy(data).into_owned(),
                name: rel(path_id),
            },
            14 => Ev::Mkdir { name: rel(path_id) },
            15 => Ev::Rmdir { name: rel(path_id) },
            17 => Ev::CloseDir,
            18 => Ev::Stat { name: rel(path_id), err },
            _ => Ev::Unmodelled { what: format!("event kind {}", kind), name: String::new() },
        };
        out.push(ev);
    }
    out
}
