//! Small self-contained utilities: PRNG, hashing, scratch directories.

use std::path::{Path, PathBuf};

/// SplitMix64-seeded xoshiro256**.
#[derive(Clone, Debug)]
pub struct Rng {
    s: [u64; 4],
}

pub fn splitmix(x: &mut u64) -> u64 {
    *x = x.wrapping_add(0x9E37_79B9_7F4A_7C15);
    let mut z = *x;
    z = (z ^ (z >> 30)).wrapping_mul(0xBF58_476D_1CE4_E5B9);
    z = (z ^ (z >> 27)).wrapping_mul(0x94D0_49BB_1331_11EB);
    z ^ (z >> 31)
}

impl Rng {
    pub fn new(seed: u64) -> Rng {
        let mut x = seed;
        Rng {
            s: [
                splitmix(&mut x),
                splitmix(&mut x),
                splitmix(&mut x),
                splitmix(&mut x),
            ],
        }
    }
    pub fn from_parts(parts: &[u64]) -> Rng {
        let mut h = 0xCBF2_9CE4_8422_2325u64;
        for p in parts {
            h = mix64(h ^ *p);
        }
        Rng::new(h)
    }
    pub fn next(&mut self) -> u64 {
        let r = self.s[1].wrapping_mul(5).rotate_left(7).wrapping_mul(9);
        let t = self.s[1] << 17;
        self.s[2] ^= self.s[0];
        self.s[3] ^= self.s[1];
        self.s[1] ^= self.s[2];
        self.s[0] ^= self.s[3];
        self.s[2] ^= t;
        self.s[3] = self.s[3].rotate_left(45);
        r
    }
    /// Uniform in 0..n (n > 0).
    pub fn below(&mut self, n: u64) -> u64 {
        debug_assert!(n > 0);
        ((self.next() as u128 * n as u128) >> 64) as u64
    }
    pub fn range(&mut self, lo: u64, hi_incl: u64) -> u64 {
        lo + self.below(hi_incl - lo + 1)
    }
    pub fn usize(&mut self, lo: usize, hi_incl: usize) -> usize {
        self.range(lo as u64, hi_incl as u64) as usize
    }
    pub fn chance(&mut self, num: u64, den: u64) -> bool {
        self.below(den) < num
    }
    pub fn pick<'a, T>(&mut self, xs: &'a [T]) -> &'a T {
        &xs[self.below(xs.len() as u64) as usize]
    }
    /// Weighted choice: returns the index.
    pub fn weighted(&mut self, w: &[u32]) -> usize {
        let total: u64 = w.iter().map(|x| *x as u64).sum();
        let mut r = self.below(total.max(1));
        for (i, x) in w.iter().enumerate() {
            if r < *x as u64 {
                return i;
            }
            r -= *x as u64;
        }
        w.len() - 1
    }
    pub fn fill(&mut self, buf: &mut [u8]) {
        let mut chunks = buf.chunks_exact_mut(8);
        for c in &mut chunks {
            c.copy_from_slice(&self.next().to_le_bytes());
        }
        let rem = chunks.into_remainder();
        if !rem.is_empty() {
            let b = self.next().to_le_bytes();
            let n = rem.len();
            rem.copy_from_slice(&b[..n]);
        }
    }
}

pub fn mix64(mut z: u64) -> u64 {
    z = (z ^ (z >> 33)).wrapping_mul(0xFF51_AFD7_ED55_8CCD);
    z = (z ^ (z >> 33)).wrapping_mul(0xC4CE_B9FE_1A85_EC53);
    z ^ (z >> 33)
}

/// 64-bit content hash (not cryptographic; collisions ~2^-64 per pair).
pub fn hash_bytes(data: &[u8]) -> u64 {
    let mut h = 0x9E37_79B9_7F4A_7C15u64 ^ (data.len() as u64).wrapping_mul(0xA24B_AED4_963E_E407);
    let mut chunks = data.chunks_exact(8);
    for c in &mut chunks {
        let v = u64::from_le_bytes([c[0], c[1], c[2], c[3], c[4], c[5], c[6], c[7]]);
        h = (h ^ v).wrapping_mul(0x100_0000_01B3).rotate_left(29) ^ 0x5851_F42D_4C95_7F2D;
    }
    let rem = chunks.remainder();
    let mut last = [0u8; 8];
    last[..rem.len()].copy_from_slice(rem);
    h = (h ^ u64::from_le_bytes(last)).wrapping_mul(0x100_0000_01B3);
    mix64(h)
}

pub fn hash_combine(a: u64, b: u64) -> u64 {
    mix64(a.rotate_left(17) ^ b.wrapping_mul(0x9E37_79B9_7F4A_7C15))
}

pub fn hash_str(s: &str) -> u64 {
    hash_bytes(s.as_bytes())
}

/// Root for all scratch directories of this process.  /dev/shm (tmpfs) when available.
pub fn scratch_root() -> PathBuf {
    if let Ok(p) = std::env::var("VERIF_SCRATCH") {
        return PathBuf::from(p);
    }
    let shm = Path::new("/dev/shm");
    if shm.is_dir() {
        shm.join("mrl-verif")
    } else {
        std::env::temp_dir().join("mrl-verif")
    }
}

/// A scratch directory removed on drop.
pub struct Scratch {
    pub path: PathBuf,
}

impl Scratch {
    pub fn new(label: &str) -> Scratch {
        use std::sync::atomic::{AtomicU64, Ordering};
        static N: AtomicU64 = AtomicU64::new(0);
        let n = N.fetch_add(1, Ordering::Relaxed);
        let path = scratch_root().join(format!("p{}-{}-{}", std::process::id(), label, n));
        let _ = std::fs::remove_dir_all(&path);
        std::fs::create_dir_all(&path).expect("create scratch dir");
        Scratch { path }
    }
    pub fn sub(&self, name: &str) -> PathBuf {
        let p = self.path.join(name);
        let _ = std::fs::remove_dir_all(&p);
        std::fs::create_dir_all(&p).expect("create scratch sub dir");
        p
    }
}

impl Drop for Scratch {
    fn drop(&mut self) {
        let _ = std::fs::remove_dir_all(&self.path);
    }
}

pub fn clear_dir(p: &Path) {
    if let Ok(rd) = std::fs::read_dir(p) {
        for e in rd.flatten() {
            let path = e.path();
            match e.file_type() {
                Ok(t) if t.is_dir() => {
                    let _ = std::fs::remove_dir_all(&path);
                }
                _ => {
                    let _ = std::fs::remove_file(&path);
                }
            }
        }
    }
}

pub fn hex(data: &[u8], max: usize) -> String {
    let mut s = String::new();
    for b in data.iter().take(max) {
        s.push_str(&format!("{:02x}", b));
    }
    if data.len() > max {
        s.push_str("..");
    }
    s
}
