#!/bin/bash
# Build the syscall shim and the harness (release + dev profile), offline.
set -euo pipefail
cd "$(dirname "$0")"
export CARGO_NET_OFFLINE=true
export CARGO_TARGET_DIR="$PWD/target"
mkdir -p build evidence
gcc -O2 -w -fPIC -shared -o build/libiotrace.so.tmp shim/iotrace.c -ldl -lpthread
mv build/libiotrace.so.tmp build/libiotrace.so
(cd harness && cargo build --release --offline --quiet)
(cd harness && cargo build --offline --quiet)
echo "setup ok"
