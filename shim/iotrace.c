/*
 * iotrace.c -- LD_PRELOAD syscall-boundary monitor and fault injector for the
 * mrecordlog verification harness (/verif/DESIGN.md section 2.1).
 *
 * Every libc file-system entry point the Rust standard library uses is interposed.
 * Calls that touch a path under the registered root (or an fd opened from such a
 * path) append one event to an in-process arena; everything else is passed through
 * untouched.  Tracing is OFF until the harness calls iot_pause(0), so the harness's
 * own scratch I/O never shows up.
 *
 * Control API (reached from Rust through dlsym(RTLD_DEFAULT, ..)):
 *   iot_present()                         -> 1
 *   iot_set_root(path)                    register the traced directory
 *   iot_pause(on)                         1 = stop tracing, 0 = trace
 *   iot_reset()                           drop recorded events, counters, faults, budget
 *   iot_mark(kind, id)                    call-window marker event
 *   iot_events(&ptr, &len)                raw arena (sequence of struct ev + data)
 *   iot_path(id)                          path string of a path id
 *   iot_fault(class, nth, err, persist)   fail the nth (1-based) traced call of class
 *   iot_budget(max_calls)                 _exit(97) when more traced calls are made
 *   iot_counts(out[IOT_NCLASS])           traced calls per class so far
 *   iot_unmodelled()                      number of calls the image builder cannot model
 */
#define _GNU_SOURCE
#include <dirent.h>
#include <dlfcn.h>
#include <errno.h>
#include <fcntl.h>
#include <pthread.h>
#include <stdarg.h>
#include <stdint.h>
#include <stdio.h>
#include <stdlib.h>
#include <string.h>
#include <sys/stat.h>
#include <sys/types.h>
#include <sys/uio.h>
#include <unistd.h>

enum {
    EV_OPEN = 1, EV_CLOSE = 2, EV_READ = 3, EV_WRITE = 4, EV_LSEEK = 5, EV_FTRUNCATE = 6,
    EV_FSYNC = 7, EV_UNLINK = 8, EV_OPENDIR = 9, EV_READDIR = 10, EV_RENAME = 11,
    EV_MARK = 12, EV_UNMODELLED = 13, EV_MKDIR = 14, EV_RMDIR = 15, EV_CLOSEDIR = 17,
    EV_STAT = 18
};

enum {
    CL_OPENDIR = 0, CL_READDIR = 1, CL_OPEN_FILE = 2, CL_OPEN_DIRFD = 3, CL_READ = 4,
    CL_WRITE = 5, CL_LSEEK = 6, CL_FTRUNCATE = 7, CL_FSYNC = 8, CL_UNLINK = 9,
    CL_CLOSE = 10, CL_OTHER = 11, CL_STAT = 12, IOT_NCLASS = 13
};

struct ev {
    uint32_t kind;
    int32_t fd;
    int32_t path_id;
    int32_t err;
    int64_t ret;
    uint64_t off;
    uint64_t len;
    uint32_t flags;
    uint32_t datalen;
};

#define MAXFD 4096
#define MAXDIRS 64
#define MAXPATHS 65536

static pthread_mutex_t g_mu = PTHREAD_MUTEX_INITIALIZER;
static char g_root[4096];
static size_t g_rootlen;
static volatile int g_paused = 1;
static uint8_t *g_arena;
static size_t g_alen, g_acap;
static int32_t g_fdpath[MAXFD];  /* 0 = untraced, else path_id+1 */
static struct { DIR *d; int32_t path_id; } g_dirs[MAXDIRS];
static char *g_paths[MAXPATHS];
static int32_t g_npaths;
static long g_counts[IOT_NCLASS];
static long g_total;
static long g_budget = -1;
static long g_unmodelled;
static struct { int armed; int cls; long nth; int err; int persist; } g_fault;
/* persist == 2 on class READ: the nth read is served SHORT (half of what was asked), and the
   read that follows it on any traced fd fails with the errno ("bad sector" model). */
static int g_short_pending;      /* the current read must be shortened */
/* persist == 3 on class WRITE: every write from the nth on is served SHORT (half of what was
   asked, when more than one byte was asked) and returns that count without any error - legal
   behaviour of write(2) that callers have to loop over. */
static int g_short_write;        /* the current write must be shortened */
static int g_fail_next_read;     /* errno for the read following a shortened one, or 0 */
static long g_delivered;         /* number of injected errors actually returned to the caller */

/* ---- real functions ---------------------------------------------------------- */
#define REAL(name) static __typeof__(name) *real_##name
REAL(open); REAL(open64); REAL(openat); REAL(openat64); REAL(creat); REAL(close);
REAL(read); REAL(pread); REAL(pread64); REAL(readv); REAL(write); REAL(pwrite);
REAL(pwrite64); REAL(writev); REAL(lseek); REAL(lseek64); REAL(ftruncate);
REAL(ftruncate64); REAL(truncate); REAL(truncate64); REAL(fsync); REAL(fdatasync);
REAL(unlink); REAL(unlinkat); REAL(rename); REAL(renameat); REAL(link); REAL(symlink);
REAL(mkdir); REAL(rmdir); REAL(opendir); REAL(fdopendir); REAL(readdir);
REAL(readdir64); REAL(closedir); REAL(fallocate); REAL(posix_fallocate);
REAL(copy_file_range); REAL(sync_file_range);
static int (*real_renameat2)(int, const char *, int, const char *, unsigned);

#define RESOLVE(name) do { if (!real_##name) real_##name = dlsym(RTLD_NEXT, #name); } while (0)

/* ---- helpers ------------------------------------------------------------------- */
static int under_root(const char *p)
{
    if (!p || !g_rootlen) return 0;
    if (strncmp(p, g_root, g_rootlen) != 0) return 0;
    return p[g_rootlen] == 0 || p[g_rootlen] == '/';
}
static int is_root(const char *p)
{
    size_t n;
    if (!under_root(p)) return 0;
    n = strlen(p);
    while (n > g_rootlen && p[n - 1] == '/') n--;
    return n == g_rootlen;
}
static int32_t path_id(const char *p)
{
    int32_t i;
    for (i = g_npaths - 1; i >= 0; i--)
        if (strcmp(g_paths[i], p) == 0) return i;
    if (g_npaths >= MAXPATHS) return 0;
    g_paths[g_npaths] = strdup(p);
    return g_npaths++;
}
static void emit(uint32_t kind, int fd, int32_t pid, int err, int64_t ret, uint64_t off,
                 uint64_t len, uint32_t flags, const void *data, uint32_t datalen)
{
    struct ev e;
    size_t need = sizeof e + datalen;
    if (g_alen + need > g_acap) {
        size_t ncap = g_acap ? g_acap * 2 : (1u << 20);
        while (ncap < g_alen + need) ncap *= 2;
        g_arena = realloc(g_arena, ncap);
        if (!g_arena) _exit(96);
        g_acap = ncap;
    }
    memset(&e, 0, sizeof e);
    e.kind = kind; e.fd = fd; e.path_id = pid; e.err = err; e.ret = ret; e.off = off;
    e.len = len; e.flags = flags; e.datalen = datalen;
    memcpy(g_arena + g_alen, &e, sizeof e);
    if (datalen) memcpy(g_arena + g_alen + sizeof e, data, datalen);
    g_alen += need;
}
/* Count a traced call of a class; returns an errno to inject, or 0. */
static int account(int cls)
{
    long n;
    g_total++;
    n = ++g_counts[cls];
    if (g_budget >= 0 && g_total > g_budget) {
        static const char msg[] = "iotrace: traced-call budget exhausted\n";
        RESOLVE(write);
        real_write(2, msg, sizeof msg - 1);
        _exit(97);
    }
    if (cls == CL_READ && g_fail_next_read) {
        int e = g_fail_next_read;
        g_fail_next_read = 0;
        g_delivered++;
        return e;
    }
    if (g_fault.armed && g_fault.cls == cls) {
        if (g_fault.persist == 2) {
            if (cls == CL_READ && n == g_fault.nth) g_short_pending = 1;
            return 0;
        }
        if (g_fault.persist == 3) {
            if (cls == CL_WRITE && n >= g_fault.nth) g_short_write = 1;
            return 0;
        }
        if (n == g_fault.nth || (g_fault.persist && n > g_fault.nth)) { g_delivered++; return g_fault.err; }
    }
    return 0;
}
static int traced_fd(int fd) { return !g_paused && fd >= 0 && fd < MAXFD && g_fdpath[fd]; }
static void unmodelled(const char *what, int fd, const char *path)
{
    g_unmodelled++;
    emit(EV_UNMODELLED, fd, path ? path_id(path) : -1, 0, 0, 0, 0, 0, what,
         (uint32_t)strlen(what));
}

/* ---- control API --------------------------------------------------------------- */
int iot_present(void) { return 1; }
void iot_set_root(const char *p)
{
    size_t n = strlen(p);
    while (n > 1 && p[n - 1] == '/') n--;
    if (n >= sizeof g_root) n = sizeof g_root - 1;
    memcpy(g_root, p, n); g_root[n] = 0; g_rootlen = n;
}
void iot_pause(int on) { g_paused = on; }
/* Hostile-but-legal file system: readdir reports DT_UNKNOWN for every entry under the root. */
static int g_dt_unknown;
void iot_dt_unknown(int on) { g_dt_unknown = on; }
void iot_reset(void)
{
    g_alen = 0; g_total = 0; g_budget = -1; g_unmodelled = 0;
    memset(g_counts, 0, sizeof g_counts);
    memset(&g_fault, 0, sizeof g_fault);
    g_short_pending = 0; g_fail_next_read = 0; g_delivered = 0; g_short_write = 0;
}
/* Also forget every path and fd association: only when the library holds no open fd. */
void iot_reset_all(void)
{
    int i;
    iot_reset();
    for (i = 0; i < g_npaths; i++) free(g_paths[i]);
    g_npaths = 0;
    memset(g_fdpath, 0, sizeof g_fdpath);
    memset(g_dirs, 0, sizeof g_dirs);
}
void iot_mark(uint32_t kind, uint64_t id) { emit(EV_MARK, -1, -1, 0, 0, id, 0, kind, 0, 0); }
void iot_events(const uint8_t **p, size_t *len) { *p = g_arena; *len = g_alen; }
const char *iot_path(int32_t id) { return (id >= 0 && id < g_npaths) ? g_paths[id] : ""; }
void iot_fault(int cls, long nth, int err, int persist)
{
    g_fault.armed = nth > 0; g_fault.cls = cls; g_fault.nth = nth; g_fault.err = err;
    g_fault.persist = persist;
}
void iot_budget(long max_calls) { g_budget = max_calls; }
void iot_counts(long *out) { memcpy(out, g_counts, sizeof g_counts); }
long iot_total(void) { return g_total; }
long iot_unmodelled(void) { return g_unmodelled; }
long iot_delivered(void) { return g_delivered; }

/* ---- open family ----------------------------------------------------------------- */
static int do_open(const char *fname, int (*fn)(const char *, int, ...), const char *path,
                   int flags, mode_t mode)
{
    int fd, inj, err, cls;
    (void)fname;
    if (g_paused || !under_root(path)) return fn(path, flags, mode);
    pthread_mutex_lock(&g_mu);
    cls = is_root(path) ? CL_OPEN_DIRFD : CL_OPEN_FILE;
    inj = account(cls);
    if (inj) { fd = -1; err = inj; }
    else { fd = fn(path, flags, mode); err = fd < 0 ? errno : 0; }
    if (fd >= 0 && fd < MAXFD) g_fdpath[fd] = path_id(path) + 1;
    emit(EV_OPEN, fd, path_id(path), err, fd, 0, (uint64_t)mode, (uint32_t)flags, 0, 0);
    if (flags & (O_APPEND | O_TRUNC)) unmodelled("open(O_APPEND|O_TRUNC)", fd, path);
    pthread_mutex_unlock(&g_mu);
    errno = err;
    return fd;
}
int open(const char *path, int flags, ...)
{
    mode_t mode = 0;
    if (flags & (O_CREAT | O_TMPFILE)) { va_list ap; va_start(ap, flags); mode = va_arg(ap, mode_t); va_end(ap); }
    RESOLVE(open);
    return do_open("open", real_open, path, flags, mode);
}
int open64(const char *path, int flags, ...)
{
    mode_t mode = 0;
    if (flags & (O_CREAT | O_TMPFILE)) { va_list ap; va_start(ap, flags); mode = va_arg(ap, mode_t); va_end(ap); }
    RESOLVE(open64);
    return do_open("open64", real_open64, path, flags, mode);
}
static int do_openat(int (*fn)(int, const char *, int, ...), int dirfd, const char *path,
                     int flags, mode_t mode)
{
    char buf[8192];
    int fd, inj, err;
    if (g_paused || !path) return fn(dirfd, path, flags, mode);
    if (path[0] == '/') {
        if (!under_root(path)) return fn(dirfd, path, flags, mode);
        snprintf(buf, sizeof buf, "%s", path);
    } else if (dirfd >= 0 && dirfd < MAXFD && g_fdpath[dirfd]) {
        snprintf(buf, sizeof buf, "%s/%s", g_paths[g_fdpath[dirfd] - 1], path);
    } else {
        return fn(dirfd, path, flags, mode);
    }
    pthread_mutex_lock(&g_mu);
    inj = account(is_root(buf) ? CL_OPEN_DIRFD : CL_OPEN_FILE);
    if (inj) { fd = -1; err = inj; }
    else { fd = fn(dirfd, path, flags, mode); err = fd < 0 ? errno : 0; }
    if (fd >= 0 && fd < MAXFD) g_fdpath[fd] = path_id(buf) + 1;
    emit(EV_OPEN, fd, path_id(buf), err, fd, 0, (uint64_t)mode, (uint32_t)flags, 0, 0);
    if (flags & (O_APPEND | O_TRUNC)) unmodelled("openat(O_APPEND|O_TRUNC)", fd, buf);
    pthread_mutex_unlock(&g_mu);
    errno = err;
    return fd;
}
int openat(int dirfd, const char *path, int flags, ...)
{
    mode_t mode = 0;
    if (flags & (O_CREAT | O_TMPFILE)) { va_list ap; va_start(ap, flags); mode = va_arg(ap, mode_t); va_end(ap); }
    RESOLVE(openat);
    return do_openat(real_openat, dirfd, path, flags, mode);
}
int openat64(int dirfd, const char *path, int flags, ...)
{
    mode_t mode = 0;
    if (flags & (O_CREAT | O_TMPFILE)) { va_list ap; va_start(ap, flags); mode = va_arg(ap, mode_t); va_end(ap); }
    RESOLVE(openat64);
    return do_openat(real_openat64, dirfd, path, flags, mode);
}
int creat(const char *path, mode_t mode)
{
    RESOLVE(creat);
    if (!g_paused && under_root(path)) {
        pthread_mutex_lock(&g_mu); unmodelled("creat", -1, path); pthread_mutex_unlock(&g_mu);
    }
    return real_creat(path, mode);
}
int close(int fd)
{
    int r, err;
    RESOLVE(close);
    if (fd >= 0 && fd < MAXFD && g_fdpath[fd]) {
        int32_t pid = g_fdpath[fd] - 1;
        int tr = !g_paused;
        g_fdpath[fd] = 0;
        if (tr) {
            pthread_mutex_lock(&g_mu);
            account(CL_CLOSE);
            r = real_close(fd); err = r < 0 ? errno : 0;
            emit(EV_CLOSE, fd, pid, err, r, 0, 0, 0, 0, 0);
            pthread_mutex_unlock(&g_mu);
            errno = err;
            return r;
        }
    }
    return real_close(fd);
}

/* ---- read family -------------------------------------------------------------------- */
ssize_t read(int fd, void *buf, size_t n)
{
    ssize_t r; int inj, err; off_t off;
    RESOLVE(read);
    if (!traced_fd(fd)) return real_read(fd, buf, n);
    RESOLVE(lseek);
    pthread_mutex_lock(&g_mu);
    off = real_lseek(fd, 0, SEEK_CUR);
    inj = account(CL_READ);
    if (inj) { r = -1; err = inj; }
    else {
        size_t want = n;
        if (g_short_pending && n > 1) { want = n / 2; }
        r = real_read(fd, buf, want); err = r < 0 ? errno : 0;
        if (g_short_pending) { g_short_pending = 0; if (r > 0) g_fail_next_read = g_fault.err; }
    }
    emit(EV_READ, fd, g_fdpath[fd] - 1, err, r, (uint64_t)off, n, 0, 0, 0);
    pthread_mutex_unlock(&g_mu);
    errno = err;
    return r;
}
ssize_t pread64(int fd, void *buf, size_t n, off64_t off)
{
    ssize_t r; int inj, err;
    RESOLVE(pread64);
    if (!traced_fd(fd)) return real_pread64(fd, buf, n, off);
    pthread_mutex_lock(&g_mu);
    inj = account(CL_READ);
    if (inj) { r = -1; err = inj; } else { r = real_pread64(fd, buf, n, off); err = r < 0 ? errno : 0; }
    emit(EV_READ, fd, g_fdpath[fd] - 1, err, r, (uint64_t)off, n, 1, 0, 0);
    pthread_mutex_unlock(&g_mu);
    errno = err;
    return r;
}
ssize_t pread(int fd, void *buf, size_t n, off_t off) { return pread64(fd, buf, n, off); }
ssize_t readv(int fd, const struct iovec *iov, int cnt)
{
    ssize_t r; int inj, err; off_t off; size_t n = 0; int i;
    RESOLVE(readv);
    if (!traced_fd(fd)) return real_readv(fd, iov, cnt);
    RESOLVE(lseek);
    for (i = 0; i < cnt; i++) n += iov[i].iov_len;
    pthread_mutex_lock(&g_mu);
    off = real_lseek(fd, 0, SEEK_CUR);
    inj = account(CL_READ);
    if (inj) { r = -1; err = inj; } else { r = real_readv(fd, iov, cnt); err = r < 0 ? errno : 0; }
    emit(EV_READ, fd, g_fdpath[fd] - 1, err, r, (uint64_t)off, n, 2, 0, 0);
    pthread_mutex_unlock(&g_mu);
    errno = err;
    return r;
}

/* ---- write family ------------------------------------------------------------------- */
ssize_t write(int fd, const void *buf, size_t n)
{
    ssize_t r; int inj, err; off_t off;
    RESOLVE(write);
    if (!traced_fd(fd)) return real_write(fd, buf, n);
    RESOLVE(lseek);
    pthread_mutex_lock(&g_mu);
    off = real_lseek(fd, 0, SEEK_CUR);
    inj = account(CL_WRITE);
    if (inj) { r = -1; err = inj; }
    else {
        size_t want = n;
        if (g_short_write) { g_short_write = 0; if (n > 1) { want = n / 2; g_delivered++; } }
        r = real_write(fd, buf, want); err = r < 0 ? errno : 0;
    }
    emit(EV_WRITE, fd, g_fdpath[fd] - 1, err, r, (uint64_t)off, n, 0, buf, r > 0 ? (uint32_t)r : 0);
    pthread_mutex_unlock(&g_mu);
    errno = err;
    return r;
}
ssize_t pwrite64(int fd, const void *buf, size_t n, off64_t off)
{
    ssize_t r; int inj, err;
    RESOLVE(pwrite64);
    if (!traced_fd(fd)) return real_pwrite64(fd, buf, n, off);
    pthread_mutex_lock(&g_mu);
    inj = account(CL_WRITE);
    if (inj) { r = -1; err = inj; } else { r = real_pwrite64(fd, buf, n, off); err = r < 0 ? errno : 0; }
    emit(EV_WRITE, fd, g_fdpath[fd] - 1, err, r, (uint64_t)off, n, 1, buf, r > 0 ? (uint32_t)r : 0);
    pthread_mutex_unlock(&g_mu);
    errno = err;
    return r;
}
ssize_t pwrite(int fd, const void *buf, size_t n, off_t off) { return pwrite64(fd, buf, n, off); }
ssize_t writev(int fd, const struct iovec *iov, int cnt)
{
    ssize_t r; int inj, err; off_t off; size_t n = 0; int i; uint8_t *tmp; size_t done = 0;
    RESOLVE(writev);
    if (!traced_fd(fd)) return real_writev(fd, iov, cnt);
    RESOLVE(lseek);
    for (i = 0; i < cnt; i++) n += iov[i].iov_len;
    pthread_mutex_lock(&g_mu);
    off = real_lseek(fd, 0, SEEK_CUR);
    inj = account(CL_WRITE);
    if (inj) { r = -1; err = inj; } else { r = real_writev(fd, iov, cnt); err = r < 0 ? errno : 0; }
    tmp = malloc(n ? n : 1);
    for (i = 0; i < cnt; i++) { memcpy(tmp + done, iov[i].iov_base, iov[i].iov_len); done += iov[i].iov_len; }
    emit(EV_WRITE, fd, g_fdpath[fd] - 1, err, r, (uint64_t)off, n, 2, tmp, r > 0 ? (uint32_t)r : 0);
    free(tmp);
    pthread_mutex_unlock(&g_mu);
    errno = err;
    return r;
}

/* ---- seek / truncate / sync ------------------------------------------------------------ */
off64_t lseek64(int fd, off64_t off, int whence)
{
    off64_t r; int inj, err;
    RESOLVE(lseek64);
    if (!traced_fd(fd)) return real_lseek64(fd, off, whence);
    pthread_mutex_lock(&g_mu);
    inj = account(CL_LSEEK);
    if (inj) { r = -1; err = inj; } else { r = real_lseek64(fd, off, whence); err = r < 0 ? errno : 0; }
    emit(EV_LSEEK, fd, g_fdpath[fd] - 1, err, r, (uint64_t)off, 0, (uint32_t)whence, 0, 0);
    pthread_mutex_unlock(&g_mu);
    errno = err;
    return r;
}
off_t lseek(int fd, off_t off, int whence) { return lseek64(fd, off, whence); }
int ftruncate64(int fd, off64_t len)
{
    int r, inj, err;
    RESOLVE(ftruncate64);
    if (!traced_fd(fd)) return real_ftruncate64(fd, len);
    pthread_mutex_lock(&g_mu);
    inj = account(CL_FTRUNCATE);
    if (inj) { r = -1; err = inj; } else { r = real_ftruncate64(fd, len); err = r < 0 ? errno : 0; }
    emit(EV_FTRUNCATE, fd, g_fdpath[fd] - 1, err, r, 0, (uint64_t)len, 0, 0, 0);
    pthread_mutex_unlock(&g_mu);
    errno = err;
    return r;
}
int ftruncate(int fd, off_t len) { return ftruncate64(fd, len); }
int truncate64(const char *path, off64_t len)
{
    RESOLVE(truncate64);
    if (!g_paused && under_root(path)) {
        pthread_mutex_lock(&g_mu); unmodelled("truncate", -1, path); pthread_mutex_unlock(&g_mu);
    }
    return real_truncate64(path, len);
}
int truncate(const char *path, off_t len) { return truncate64(path, len); }
static int do_sync(int fd, int data)
{
    int r, inj, err;
    RESOLVE(fsync); RESOLVE(fdatasync);
    if (!traced_fd(fd)) return data ? real_fdatasync(fd) : real_fsync(fd);
    pthread_mutex_lock(&g_mu);
    inj = account(CL_FSYNC);
    if (inj) { r = -1; err = inj; }
    else { r = data ? real_fdatasync(fd) : real_fsync(fd); err = r < 0 ? errno : 0; }
    emit(EV_FSYNC, fd, g_fdpath[fd] - 1, err, r, 0, 0, (uint32_t)data, 0, 0);
    pthread_mutex_unlock(&g_mu);
    errno = err;
    return r;
}
int fsync(int fd) { return do_sync(fd, 0); }
int fdatasync(int fd) { return do_sync(fd, 1); }
int sync_file_range(int fd, off64_t a, off64_t b, unsigned f)
{
    RESOLVE(sync_file_range);
    if (traced_fd(fd)) { pthread_mutex_lock(&g_mu); unmodelled("sync_file_range", fd, 0); pthread_mutex_unlock(&g_mu); }
    return real_sync_file_range(fd, a, b, f);
}
int fallocate(int fd, int mode, off_t a, off_t b)
{
    RESOLVE(fallocate);
    if (traced_fd(fd)) { pthread_mutex_lock(&g_mu); unmodelled("fallocate", fd, 0); pthread_mutex_unlock(&g_mu); }
    return real_fallocate(fd, mode, a, b);
}
int posix_fallocate(int fd, off_t a, off_t b)
{
    RESOLVE(posix_fallocate);
    if (traced_fd(fd)) { pthread_mutex_lock(&g_mu); unmodelled("posix_fallocate", fd, 0); pthread_mutex_unlock(&g_mu); }
    return real_posix_fallocate(fd, a, b);
}
ssize_t copy_file_range(int a, off64_t *ao, int b, off64_t *bo, size_t n, unsigned f)
{
    RESOLVE(copy_file_range);
    if (traced_fd(a) || traced_fd(b)) { pthread_mutex_lock(&g_mu); unmodelled("copy_file_range", b, 0); pthread_mutex_unlock(&g_mu); }
    return real_copy_file_range(a, ao, b, bo, n, f);
}

/* ---- namespace operations -------------------------------------------------------------- */
int unlink(const char *path)
{
    int r, inj, err;
    RESOLVE(unlink);
    if (g_paused || !under_root(path)) return real_unlink(path);
    pthread_mutex_lock(&g_mu);
    inj = account(CL_UNLINK);
    if (inj) { r = -1; err = inj; } else { r = real_unlink(path); err = r < 0 ? errno : 0; }
    emit(EV_UNLINK, -1, path_id(path), err, r, 0, 0, 0, 0, 0);
    pthread_mutex_unlock(&g_mu);
    errno = err;
    return r;
}
int unlinkat(int dirfd, const char *path, int flags)
{
    RESOLVE(unlinkat);
    if (!g_paused && ((path && path[0] == '/' && under_root(path)) ||
                      (dirfd >= 0 && dirfd < MAXFD && g_fdpath[dirfd]))) {
        char buf[8192];
        int r, err;
        if (path[0] == '/') snprintf(buf, sizeof buf, "%s", path);
        else snprintf(buf, sizeof buf, "%s/%s", g_paths[g_fdpath[dirfd] - 1], path);
        pthread_mutex_lock(&g_mu);
        account(CL_UNLINK);
        r = real_unlinkat(dirfd, path, flags); err = r < 0 ? errno : 0;
        emit((flags & AT_REMOVEDIR) ? EV_RMDIR : EV_UNLINK, -1, path_id(buf), err, r, 0, 0, 1, 0, 0);
        pthread_mutex_unlock(&g_mu);
        errno = err;
        return r;
    }
    return real_unlinkat(dirfd, path, flags);
}
static void note_rename(const char *what, const char *a, const char *b)
{
    if (!g_paused && (under_root(a) || under_root(b))) {
        pthread_mutex_lock(&g_mu);
        account(CL_OTHER);
        emit(EV_RENAME, -1, path_id(a), 0, 0, 0, 0, 0, b, (uint32_t)strlen(b));
        unmodelled(what, -1, a);
        pthread_mutex_unlock(&g_mu);
    }
}
int rename(const char *a, const char *b) { RESOLVE(rename); note_rename("rename", a, b); return real_rename(a, b); }
int renameat(int ad, const char *a, int bd, const char *b) { RESOLVE(renameat); note_rename("renameat", a, b); return real_renameat(ad, a, bd, b); }
int renameat2(int ad, const char *a, int bd, const char *b, unsigned f)
{
    if (!real_renameat2) real_renameat2 = dlsym(RTLD_NEXT, "renameat2");
    note_rename("renameat2", a, b);
    return real_renameat2(ad, a, bd, b, f);
}
int link(const char *a, const char *b) { RESOLVE(link); note_rename("link", a, b); return real_link(a, b); }
int symlink(const char *a, const char *b) { RESOLVE(symlink); note_rename("symlink", b, a); return real_symlink(a, b); }
int mkdir(const char *path, mode_t mode)
{
    int r, err;
    RESOLVE(mkdir);
    if (g_paused || !under_root(path)) return real_mkdir(path, mode);
    pthread_mutex_lock(&g_mu);
    account(CL_OTHER);
    r = real_mkdir(path, mode); err = r < 0 ? errno : 0;
    emit(EV_MKDIR, -1, path_id(path), err, r, 0, 0, 0, 0, 0);
    pthread_mutex_unlock(&g_mu);
    errno = err;
    return r;
}
int rmdir(const char *path)
{
    int r, err;
    RESOLVE(rmdir);
    if (g_paused || !under_root(path)) return real_rmdir(path);
    pthread_mutex_lock(&g_mu);
    account(CL_OTHER);
    r = real_rmdir(path); err = r < 0 ? errno : 0;
    emit(EV_RMDIR, -1, path_id(path), err, r, 0, 0, 0, 0, 0);
    pthread_mutex_unlock(&g_mu);
    errno = err;
    return r;
}

/* ---- directory listing ----------------------------------------------------------------- */
DIR *opendir(const char *path)
{
    DIR *d; int inj, err, i;
    RESOLVE(opendir);
    if (g_paused || !under_root(path)) return real_opendir(path);
    pthread_mutex_lock(&g_mu);
    inj = account(CL_OPENDIR);
    if (inj) { d = NULL; err = inj; } else { d = real_opendir(path); err = d ? 0 : errno; }
    if (d) for (i = 0; i < MAXDIRS; i++) if (!g_dirs[i].d) { g_dirs[i].d = d; g_dirs[i].path_id = path_id(path); break; }
    emit(EV_OPENDIR, -1, path_id(path), err, d ? 0 : -1, 0, 0, 0, 0, 0);
    pthread_mutex_unlock(&g_mu);
    errno = err;
    return d;
}
DIR *fdopendir(int fd)
{
    DIR *d; int i;
    RESOLVE(fdopendir);
    d = real_fdopendir(fd);
    if (d && traced_fd(fd)) {
        pthread_mutex_lock(&g_mu);
        for (i = 0; i < MAXDIRS; i++) if (!g_dirs[i].d) { g_dirs[i].d = d; g_dirs[i].path_id = g_fdpath[fd] - 1; break; }
        account(CL_OPENDIR);
        emit(EV_OPENDIR, fd, g_fdpath[fd] - 1, 0, 0, 0, 0, 1, 0, 0);
        pthread_mutex_unlock(&g_mu);
    }
    return d;
}
static int dir_slot(DIR *d)
{
    int i;
    if (g_paused || !d) return -1;
    for (i = 0; i < MAXDIRS; i++) if (g_dirs[i].d == d) return i;
    return -1;
}
struct dirent64 *readdir64(DIR *d)
{
    struct dirent64 *e; int inj, err, s;
    RESOLVE(readdir64);
    s = dir_slot(d);
    if (s < 0) return real_readdir64(d);
    pthread_mutex_lock(&g_mu);
    inj = account(CL_READDIR);
    if (inj) { e = NULL; err = inj; }
    else { errno = 0; e = real_readdir64(d); err = e ? 0 : errno; }
    if (e && g_dt_unknown) e->d_type = DT_UNKNOWN;
    emit(EV_READDIR, -1, g_dirs[s].path_id, err, e ? 1 : 0, 0, 0, e ? e->d_type : 0,
         e ? e->d_name : "", e ? (uint32_t)strlen(e->d_name) : 0);
    pthread_mutex_unlock(&g_mu);
    errno = err;
    return e;
}
struct dirent *readdir(DIR *d)
{
    struct dirent *e; int inj, err, s;
    RESOLVE(readdir);
    s = dir_slot(d);
    if (s < 0) return real_readdir(d);
    pthread_mutex_lock(&g_mu);
    inj = account(CL_READDIR);
    if (inj) { e = NULL; err = inj; }
    else { errno = 0; e = real_readdir(d); err = e ? 0 : errno; }
    if (e && g_dt_unknown) e->d_type = DT_UNKNOWN;
    emit(EV_READDIR, -1, g_dirs[s].path_id, err, e ? 1 : 0, 0, 0, e ? e->d_type : 0,
         e ? e->d_name : "", e ? (uint32_t)strlen(e->d_name) : 0);
    pthread_mutex_unlock(&g_mu);
    errno = err;
    return e;
}
int closedir(DIR *d)
{
    int i;
    RESOLVE(closedir);
    for (i = 0; i < MAXDIRS; i++)
        if (g_dirs[i].d == d && d) {
            if (!g_paused) {
                pthread_mutex_lock(&g_mu);
                emit(EV_CLOSEDIR, -1, g_dirs[i].path_id, 0, 0, 0, 0, 0, 0, 0);
                pthread_mutex_unlock(&g_mu);
            }
            g_dirs[i].d = NULL;
        }
    return real_closedir(d);
}

/* ---- stat family ----------------------------------------------------------------------- */
/* Resolve (dirfd, path) to a path under the root; returns 0 when the call is not traced. */
static int stat_target(int dfd, const char *path, int flags, char *out, size_t n, int *fd_out)
{
    int i;
    *fd_out = -1;
    if (g_paused) return 0;
    if (path && path[0] == '/') {
        if (!under_root(path)) return 0;
        snprintf(out, n, "%s", path);
        return 1;
    }
    if ((!path || !path[0]) && (flags & AT_EMPTY_PATH)) {
        if (!traced_fd(dfd)) return 0;
        snprintf(out, n, "%s", g_paths[g_fdpath[dfd] - 1]);
        *fd_out = dfd;
        return 1;
    }
    if (!path) return 0;
    if (dfd >= 0 && dfd < MAXFD && g_fdpath[dfd]) {
        snprintf(out, n, "%s/%s", g_paths[g_fdpath[dfd] - 1], path);
        return 1;
    }
    for (i = 0; i < MAXDIRS; i++)
        if (g_dirs[i].d && dirfd(g_dirs[i].d) == dfd) {
            snprintf(out, n, "%s/%s", g_paths[g_dirs[i].path_id], path);
            return 1;
        }
    return 0;
}
#define STAT_BODY(CALL)                                                        \
    do {                                                                       \
        int r, inj, err;                                                       \
        pthread_mutex_lock(&g_mu);                                             \
        inj = account(CL_STAT);                                                \
        if (inj) { r = -1; err = inj; } else { r = (CALL); err = r < 0 ? errno : 0; } \
        emit(EV_STAT, sfd, path_id(sbuf), err, r, 0, 0, 0, 0, 0);               \
        pthread_mutex_unlock(&g_mu);                                           \
        errno = err;                                                           \
        return r;                                                              \
    } while (0)

static int (*real_statx)(int, const char *, int, unsigned, struct statx *);
int statx(int dfd, const char *path, int flags, unsigned mask, struct statx *buf)
{
    char sbuf[8192]; int sfd;
    if (!real_statx) real_statx = dlsym(RTLD_NEXT, "statx");
    if (!stat_target(dfd, path, flags, sbuf, sizeof sbuf, &sfd)) return real_statx(dfd, path, flags, mask, buf);
    STAT_BODY(real_statx(dfd, path, flags, mask, buf));
}
static int (*real_stat)(const char *, struct stat *);
int stat(const char *path, struct stat *buf)
{
    char sbuf[8192]; int sfd;
    if (!real_stat) real_stat = dlsym(RTLD_NEXT, "stat");
    if (!stat_target(AT_FDCWD, path, 0, sbuf, sizeof sbuf, &sfd)) return real_stat(path, buf);
    STAT_BODY(real_stat(path, buf));
}
static int (*real_stat64)(const char *, struct stat64 *);
int stat64(const char *path, struct stat64 *buf)
{
    char sbuf[8192]; int sfd;
    if (!real_stat64) real_stat64 = dlsym(RTLD_NEXT, "stat64");
    if (!stat_target(AT_FDCWD, path, 0, sbuf, sizeof sbuf, &sfd)) return real_stat64(path, buf);
    STAT_BODY(real_stat64(path, buf));
}
static int (*real_lstat)(const char *, struct stat *);
int lstat(const char *path, struct stat *buf)
{
    char sbuf[8192]; int sfd;
    if (!real_lstat) real_lstat = dlsym(RTLD_NEXT, "lstat");
    if (!stat_target(AT_FDCWD, path, 0, sbuf, sizeof sbuf, &sfd)) return real_lstat(path, buf);
    STAT_BODY(real_lstat(path, buf));
}
static int (*real_lstat64)(const char *, struct stat64 *);
int lstat64(const char *path, struct stat64 *buf)
{
    char sbuf[8192]; int sfd;
    if (!real_lstat64) real_lstat64 = dlsym(RTLD_NEXT, "lstat64");
    if (!stat_target(AT_FDCWD, path, 0, sbuf, sizeof sbuf, &sfd)) return real_lstat64(path, buf);
    STAT_BODY(real_lstat64(path, buf));
}
static int (*real_fstat)(int, struct stat *);
int fstat(int fd, struct stat *buf)
{
    char sbuf[8192]; int sfd;
    if (!real_fstat) real_fstat = dlsym(RTLD_NEXT, "fstat");
    if (!stat_target(fd, "", AT_EMPTY_PATH, sbuf, sizeof sbuf, &sfd)) return real_fstat(fd, buf);
    STAT_BODY(real_fstat(fd, buf));
}
static int (*real_fstat64)(int, struct stat64 *);
int fstat64(int fd, struct stat64 *buf)
{
    char sbuf[8192]; int sfd;
    if (!real_fstat64) real_fstat64 = dlsym(RTLD_NEXT, "fstat64");
    if (!stat_target(fd, "", AT_EMPTY_PATH, sbuf, sizeof sbuf, &sfd)) return real_fstat64(fd, buf);
    STAT_BODY(real_fstat64(fd, buf));
}
static int (*real_fstatat)(int, const char *, struct stat *, int);
int fstatat(int dfd, const char *path, struct stat *buf, int flags)
{
    char sbuf[8192]; int sfd;
    if (!real_fstatat) real_fstatat = dlsym(RTLD_NEXT, "fstatat");
    if (!stat_target(dfd, path, flags, sbuf, sizeof sbuf, &sfd)) return real_fstatat(dfd, path, buf, flags);
    STAT_BODY(real_fstatat(dfd, path, buf, flags));
}
static int (*real_fstatat64)(int, const char *, struct stat64 *, int);
int fstatat64(int dfd, const char *path, struct stat64 *buf, int flags)
{
    char sbuf[8192]; int sfd;
    if (!real_fstatat64) real_fstatat64 = dlsym(RTLD_NEXT, "fstatat64");
    if (!stat_target(dfd, path, flags, sbuf, sizeof sbuf, &sfd)) return real_fstatat64(dfd, path, buf, flags);
    STAT_BODY(real_fstatat64(dfd, path, buf, flags));
}
