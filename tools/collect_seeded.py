#!/usr/bin/env python3
"""Copy a confirmed sub-agent defect from its scratch worktree into /verif/seeded/<name>/.
usage: collect_seeded.py <Cxx> <name> "<needs to manifest>" "<one-line what>"  [worktree]"""
import sys, os, shutil, json, subprocess, glob
pid, name, needs, what = sys.argv[1:5]
w = sys.argv[5] if len(sys.argv) > 5 else f"/tmp/mut/{pid}"
d = f"/verif/seeded/{name}"
os.makedirs(d, exist_ok=True)
shutil.copy(f"{w}/seeded_patch.diff", f"{d}/patch.diff")
demos = []
for f in glob.glob(f"{w}/tests/seeded_demo.rs") + glob.glob(f"{w}/examples/seeded_demo.rs") + glob.glob(f"{w}/demo/*"):
    rel = os.path.relpath(f, w)
    os.makedirs(os.path.dirname(f"{d}/demo/{rel}"), exist_ok=True)
    if os.path.isfile(f) and os.path.getsize(f) < 200000 and not f.endswith(".so"):
        shutil.copy(f, f"{d}/demo/{rel}")
        demos.append(rel)
vlog = os.environ.get("VLOG", f"/tmp/mut/{pid}.verify.log")
verify = open(vlog).read() if os.path.exists(vlog) else ""
meta = {
    "property": pid,
    "what": what,
    "needs_to_manifest": needs,
    "demo_files": demos,
    "how_to_run_demo": "copy demo/* into a checkout of /repo with patch.diff applied; cargo test --offline --features verif --test seeded_demo (fails with the patch, passes without)" if "tests/seeded_demo.rs" in demos else "see demo/run.sh",
    "confirmed_by_me": verify.strip().splitlines(),
    "caught_by_quick_checks": {},
}
mp = f"{d}/meta.json"
if os.path.exists(mp):
    old = json.load(open(mp)); meta["caught_by_quick_checks"] = old.get("caught_by_quick_checks", {})
json.dump(meta, open(mp, "w"), indent=1)
print("collected", d, demos)
