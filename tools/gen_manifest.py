#!/usr/bin/env python3
"""Regenerates /verif/MANIFEST.json from the table below (keeps it valid at all times)."""
import json, os, subprocess, sys
ROOT = os.path.dirname(os.path.dirname(os.path.abspath(__file__)))

# id: (level category, technique, text, note, design_ref, engine)
CHECKS = {
 "C01": ("exploration", "runtime monitor: snapshot-before-drop vs snapshot-after-open self-consistency over generated histories",
         "Model-free oracle run at every restart of thousands of generated histories (GC-heavy, idle-queue, delete/re-create, long-name, multi-file profiles, all persist policies); held-on-observed, with coverage floors on restarts that follow a GC unlink / an emptied queue / a delete+re-create.",
         "Trusts the public read API as the observation channel and a 64-bit content hash for payload equality; 128 KiB WAL files (hook H1).", "4/C01", "driver"),
 "C02": ("fault_enumeration", "runtime monitor: crash-image reconstruction from an LD_PRELOAD syscall trace, recovery of every image, acceptance against states observed live",
         "Every file-system effect boundary of each traced history plus frame-aimed torn-write cuts is turned into a directory image (process-crash model), recovered with the real open(), and required to equal the state before or after the in-flight call (or a tolerated partial truncate/delete); second-level crashes inside the recovery's own effects and model-checked continuation histories + restarts on sampled recovered logs. Exhaustive per history over effect boundaries, sampled over histories and byte cuts.",
         "Process-crash model (program order, byte-prefix torn writes); acceptance set from observed snapshots; continuation trusts ops::Model; unmodelled syscalls => inconclusive.", "4/C02", "driver+iotrace"),
 "C03": ("fault_enumeration", "runtime monitor: crash-image reconstruction under process-crash and simulated power-loss models for every persist policy, persist frontier from the API contract",
         "Same engine as C02 under DoNothing / OnDelay(1h) / Always policies with explicit persist calls: at every effect boundary the process-crash image and several power-loss variants (only fsync-covered bytes survive; never-synced files absent/empty/zero-filled; optional surviving prefix of unsynced writes) must recover to a state at or after the persist frontier. One recovery in twelve (one in four of the images ending inside a multi-frame entry) continues with persisted calls and a clean restart: what was persisted after a recovery must survive the next restart.",
         "Power loss is simulated from the trace under an explicit disk model (DESIGN.md 2.2); unlink assumed durable at once; frontier derived from the statement only.", "4/C03", "driver+iotrace"),
 "C05": ("exploration", "runtime monitor: lock-step conformance of every call against a sequential reference model",
         "After every call of generated histories the outcome and the whole observable state (list/exists/range over a bound family/last_position/last_record/summary) are compared with a 90-line sequential model; release and dev-profile (overflow-checks) builds; floors on rejected/no-op shapes and ring-wrap reads.",
         "Trusted base: ops::Model written from the statement; payload equality by 64-bit hash.", "4/C05", "driver"),
}

CHECKS.update({
 "C04": ("exploration", "runtime monitor: online trace-specification checker (per-incarnation high-water mark) over call arguments/results, with restart and crash-recovery branches",
         "Every successful append of generated idle/GC-heavy histories is checked against a high-water mark kept from arguments and results only; every queue is probed after every restart and, at sampled call boundaries, in a side branch recovered from the process-crash image (also an image torn inside a multi-frame append), which is then probed, restarted cleanly and read again.",
         "Crash branch assumes Always(Flush): directory content at a call boundary = process-crash image.", "4/C04", "driver+iotrace"),
 "C06": ("exploration", "runtime monitor: directory listing + syscall-trace bookkeeping of the current file after every truncate/delete_queue/open",
         "After each truncate/delete_queue/open the WAL files present must be a contiguous run ending at the file being written, none older than min(file current when the oldest retained record's append began, file current when the call began); disk_used_bytes must equal the summed sizes. The bound comes from the trace, not from the implementation's refcounts. On a continuation after the created-but-not-sized crash shape, disk accounting is compared unless the short file is the newest one.",
         "Exact under flush-per-call policies; lazy-policy histories only check contiguity and disk accounting.", "4/C06", "driver+iotrace"),
 "C08": ("fault_enumeration", "runtime monitor: open() on in-place-damaged WAL images, recovered records checked for membership in the set of everything ever appended",
         "Hundreds of damage sets per history (bit flips, garbage, zero-fill, block/multi-block garbage, stale chunk copies, aimed at crc/len/type/payload/block edges) are applied to the final image; on Ok every recovered record must be the (queue, position, payload) of some append and positions per queue strictly increase.",
         "Payloads are self-identifying (PRNG stream keyed by op/index/len), compared by 64-bit hash; CRC-32 collisions are classified inconclusive only if a checksum-valid altered frame exists in the damaged image.", "4/C08", "driver+iotrace"),
 "C09": ("fault_enumeration", "runtime monitor: every frame of the final WAL image x 4 payload/checksum alterations, retained records not written by the hit call must survive intact and reach a consumer resuming next to the hole",
         "Frames are attributed to API calls through the syscall trace (call windows under Always(Flush)); for each frame and alteration open() must succeed and every retained record whose writing call is not the damaged frame's call must be recovered byte for byte, through range(..) and through bounded resuming reads on both sides of every hole. Exhaustive over frames per history (sampled above a cap in quick).",
         "Layout parser only aims the damage and self-validates per image; verdict comes from the read API.", "4/C09", "driver+iotrace"),
 "C10": ("fault_enumeration", "runtime monitor: open() + all read accessors on hostile directory contents in forked sacrificial children under logical syscall budget, CPU limit and allocation cap; release and overflow-checking builds",
         "Four generators (structural damage, in-place damage, CRC-valid crafted entries/frames, random blocks) x 100 images per base history; panic / abort / budget exhaustion / CPU limit / allocation cap are violations; two dev-profile-only overflow panics are listed as known findings.",
         "Hang = 10x(blocks+files)+1000 traced calls or 20 s CPU; allocation cap 64 MiB + 8x image; wall-clock only yields inconclusive.", "4/C10", "driver+iotrace"),
 "C11": ("fault_enumeration", "runtime monitor: exhaustive per-image injection of I/O errors (LD_PRELOAD shim) into every opendir/readdir/open/read call of recovery, in forked children with a logical call budget",
         "For each image every n-th call of every class is failed once and from-then-on with 6 errnos; open() must return Err(IoError) within 10x the fault-free traced calls + 1000; Ok, Corruption, budget exhaustion and panics are violations.",
         "Faults injected at the libc boundary (the real call is not made); EINTR excluded (std retries it).", "4/C11", "driver+iotrace"),
})

CHECKS.update({
 "C07": ("exploration", "runtime monitor: real RecordWriter -> RecordReader round trips over the harness's in-memory block device at enumerated (start offset, length) pairs, plus traced through-files round trips across restarts",
         "In-memory leg (hook H2): every case writes filler + entry + follower with the repository's writer and reads them back with its reader, also checking the reported byte counts against an independent recomputation; thorough enumerates every reachable start offset x boundary-relative length family. Through-files leg: 'align' histories whose payload sizes are solved from the traced write cursor, compared across restarts; the trace confirms which alignments were really hit.",
         "Harness-side BlockWrite/BlockRead implementations; identity oracle; thorough in-memory sub-space is exhaustive, the rest sampled.", "4/C07", "driver+iotrace"),
 "C12": ("fault_enumeration", "runtime monitor: crash images and single-frame damage aimed at batch appends, judged against batch boundaries known to the harness",
         "Focused batch workloads (1..64 self-identifying records, up to 3 files, interleaved truncations); every effect boundary and frame-relative torn write, and every batch frame x {payload, checksum, length, type} damage; each batch must be recovered as nothing, everything, or a hole-free suffix ending at its last record with its missing head at or below an issued truncate position. One recovery in three of a crash inside a batch append is followed by a clean restart with nothing appended and judged again.",
         "No model, no snapshot equality; records >= 16 bytes identify their batch; no deletions in this workload so positions are unique.", "4/C12", "driver+iotrace"),
 "C13": ("exploration", "runtime monitor: syscall-trace window + snapshot/disk/content equality around every rejected or no-op call, and after an immediate restart",
         "Eight rejected/no-op shapes inserted at random points of histories under all six policies; the call's trace window (plus a trailing flush) must contain no mutating syscall, state, disk usage and WAL bytes must be unchanged, wal_bytes_written 0, and a restart must reproduce the pre-call state.",
         "Buffers are drained with persist(Flush) before the window so lazy policies cannot hide a write.", "4/C13", "driver+iotrace"),
 "C14": ("exploration", "runtime monitor: lock-step differential of one history across eight persist policies (no reference model)",
         "Outcomes (positions, eviction counts, error variants) and full observable states of eight logs are compared after every call and restart (plus disk_used_bytes while the WAL streams are known to have equal length); at the end every directory is reopened under a different policy.",
         "Byte counts excluded (not in the statement); OnDelay(0) exercises the timed path.", "4/C14", "driver"),
 "C15": ("exploration", "runtime monitor: reported wal_bytes_written vs bytes of write syscalls on WAL files inside the call's trace window",
         "Exact per-call equality under Always policies (all alignments, padding sizes, roll-over inside the call, GC position records), cumulative equality at drained points under lazy policies; one truncate/delete in five meets an injected unlink failure (an Ok must still report the traced count). One restart in three finds the next WAL file created but not sized (crash shape).",
         "Bytes written by open()'s own GC pass are not surfaced by the API and are excluded.", "4/C15", "driver+iotrace"),
 "C16": ("exploration", "runtime monitor: resource_usage() inequalities against quantities computed from the observed snapshot after every call",
         "P+N <= used <= P+N+64R, used <= allocated, truncation releases what it evicts, names-only baseline when all queues are empty; payloads from 0 to hundreds of KiB; release and dev-profile builds. The upper bound is also taken against the sequential specification at the per-record overhead calibrated on the same build.",
         "'small constant per record' taken as <= 64 bytes.", "4/C16", "driver"),
 "C17": ("exploration", "runtime monitor: path filter on every traced syscall + type/size/content hash of seeded foreign entries + differential against a clean-directory twin",
         "Histories with roll-over and GC run next to near-miss names, sub-directories and symlinks named like WAL files, ordinary files; WAL files are renumbered with gaps at some restarts; every path-carrying syscall must name a regular wal-<20 digits> file, foreign entries must be byte-identical after every call, and behaviour must equal the clean twin's. One case in 32 runs in a WAL directory whose path is not valid UTF-8 next to a look-alike sibling directory that must stay untouched.",
         "Entries named exactly like WAL files are placed only at numbers the log never creates.", "4/C17", "driver+iotrace"),
 "C18": ("exploration", "runtime monitor: metamorphic comparison of a k-queue history with its per-queue projections, live, across restarts and after crash recovery",
         "Each queue's outcomes and exists/range/last_position in the full run must equal those of the projected run at every own call and every restart; crash images of the full run inside calls addressed to other queues must recover every other queue exactly as projected; power-loss images of a call boundary under Always(FlushAndFsync) must recover every queue not addressed last exactly as it was live.",
         "Model-free; C02's tolerance applies to the queue addressed by the in-flight call, which is skipped.", "4/C18", "driver+iotrace"),
})

NOT_YET = {
}

def main():
    props = [json.loads(l) for l in open(os.path.join(ROOT, "properties.jsonl"))]
    ids = [p["id"] for p in props]
    repo_commits = subprocess.run(["git", "-C", "/repo", "log", "--format=%H %s"], capture_output=True, text=True).stdout.splitlines()
    hook_commits = [l.split()[0] for l in repo_commits if " verif hook" in l]
    checks = []
    for i in ids:
        if i not in CHECKS:
            continue
        cat, tech, text, note, ref, engine = CHECKS[i]
        checks.append({
            "property_id": i,
            "quick_cmd": f"./check {i} quick",
            "thorough_cmd": f"./check {i} thorough",
            "evidence_file": f"/verif/evidence/{i}.json",
            "replay_cmd_template": f"./check {i} --replay {{path}}",
            "engine": engine,
            "level_claimed": {"category": cat, "text": text, "design_ref": f"DESIGN.md section {ref}"},
            "level_note": note,
            "technique": tech,
        })
    na = [{"property_id": i, "reason": NOT_YET.get(i, "check not built yet in this commit (work in progress; see DESIGN.md section 4 for the planned monitor)")} for i in ids if i not in CHECKS]
    m = {
        "version": 1,
        "setup_cmd": "./setup.sh",
        "hooks": {
            "guard": "cargo feature `verif` of the mrecordlog crate (off by default)",
            "enable": "the harness crate /verif/harness depends on /repo by path with features=[\"verif\"] (harness feature `small`)",
            "baseline_off_cmd": "cd /repo && cargo test --workspace --no-fail-fast --offline",
            "source_commits": hook_commits,
            "add_only": False,
        },
        "engines": [
            {"name": "iotrace", "path": "/verif/shim/iotrace.c", "kind_free_text": "LD_PRELOAD syscall-boundary monitor + fault injector (events, call windows, logical budgets)",
             "serves_properties": [c["property_id"] for c in checks if c["engine"] in ("iotrace", "driver+iotrace")]},
            {"name": "driver", "path": "/verif/harness", "kind_free_text": "Rust harness: seeded history generator, self-identifying payloads, snapshot/model oracles, crash-image builder, damage operators, sharded workers",
             "serves_properties": [c["property_id"] for c in checks]},
        ],
        "checks": checks,
        "notes": "Technique family: runtime monitoring and sanitizers. Verdicts are three-valued: exit 0 held on what was observed / exit 1 + VIOLATION line / exit 2 + INCONCLUSIVE line (harness error, watchdog, coverage floor not reached). hooks.add_only=false because hook H1 rewrites two cfg attributes on NUM_BLOCKS_PER_FILE (a const cannot be overridden additively); hook H2 is purely additive. Known findings: /verif/known_findings.json (6 defects repaired with fix: commits in /repo; kept as known findings: 2 dev-profile-only overflow panics of C10 and two format-level findings of C08 (embedded frame, block-copy splice)). Thorough tiers add: 128 MiB real-size leg (C01, C06), Miri + valgrind memcheck auxiliary legs (C05, C07, C10; reports make the run inconclusive), dense byte cuts (C02, C12), exhaustive in-memory alignment sweep (C07). Seeded defects used to validate the monitors: /verif/seeded/*/ (patch.diff, demo, meta.json), summary in /verif/seeded/RESULTS.md and DESIGN.md section 12.3.",
    }
    if na:
        m["not_applicable"] = na
    json.dump(m, open(os.path.join(ROOT, "MANIFEST.json"), "w"), indent=1)
    print("MANIFEST.json:", len(checks), "checks,", len(na), "not claimed")

if __name__ == "__main__":
    main()
