#!/bin/bash
# Run every quick check against every seeded defect, in an isolated copy (neither /repo nor
# /verif's build output is touched).  Results: seeded/<name>/meta.json + seeded/RESULTS.md
# usage: [CHECKS=own] tools/matrix.sh [name ...]   (default: all of seeded/*, all 18 checks)
set -u
ROOT="$(cd "$(dirname "$0")/.." && pwd)"
MX=/tmp/mx
mkdir -p $MX
if [ ! -d $MX/repo ]; then git -C /repo worktree add -q --detach $MX/repo HEAD; fi
git -C $MX/repo checkout -q --detach "$(git -C /repo rev-parse HEAD)"; git -C $MX/repo checkout -q -- .
rsync -a --delete --exclude target --exclude build --exclude evidence --exclude .git "$ROOT/" $MX/verif/
mkdir -p $MX/verif/evidence
sed -i "s#path = \"/repo\"#path = \"$MX/repo\"#" $MX/verif/harness/Cargo.toml
cd $MX/verif && ./setup.sh >/dev/null 2>&1 || { echo "setup failed"; exit 2; }
NAMES="$*"; [ -z "$NAMES" ] && NAMES=$(ls "$ROOT/seeded" | grep -v RESULTS)
for n in $NAMES; do
  p="$ROOT/seeded/$n/patch.diff"; [ -f "$p" ] || continue
  git -C $MX/repo checkout -q -- . ; git -C $MX/repo apply "$p" || { echo "$n: patch does not apply"; continue; }
  res="{"
  LIST="01 02 03 04 05 06 07 08 09 10 11 12 13 14 15 16 17 18"
  # CHECKS=own: only the check of the property the defect was written against (merged into
  # what is already recorded)
  [ "${CHECKS:-all}" = own ] && LIST=$(echo "$n" | cut -c2-3)
  for i in $LIST; do
    out=$(./check C$i quick 2>&1); rc=$?
    sig=$(echo "$out" | grep -E "^  signature:" | head -1 | sed 's/^  signature: //; s/"/'"'"'/g' | cut -c1-140)
    inc=$(echo "$out" | grep -E "^INCONCLUSIVE" | head -1 | sed 's/"/'"'"'/g' | cut -c1-140)
    case $rc in 0) v="held";; 1) v="VIOLATION: $sig";; *) v="inconclusive: $inc";; esac
    res="$res\"C$i\": \"$v\","
  done
  res="${res%,}}"
  git -C $MX/repo checkout -q -- .
  python3 - "$ROOT/seeded/$n/meta.json" "$res" <<'PY'
import sys, json
p, res = sys.argv[1], json.loads(sys.argv[2])
m = json.load(open(p))
if len(res) < 18:
    old = m.get("caught_by_quick_checks", {})
    for k, v in res.items():
        # a run starved of CPU (watchdog => inconclusive) does not erase an earlier verdict
        if v.startswith("inconclusive") and old.get(k, "").startswith(("VIOLATION", "held")):
            continue
        old[k] = v
    res = old
m["caught_by_quick_checks"] = res; json.dump(m, open(p, "w"), indent=1)
PY
  echo "$n: $(echo "$res" | grep -o 'C[0-9]*": "VIOLATION' | cut -c1-3 | tr '\n' ' ')"
done
python3 - "$ROOT" <<'PY'
import sys, json, glob, os
root = sys.argv[1]
rows = []
for mp in sorted(glob.glob(f"{root}/seeded/*/meta.json")):
    m = json.load(open(mp)); name = os.path.basename(os.path.dirname(mp))
    c = m.get("caught_by_quick_checks", {})
    caught = [k for k, v in c.items() if v.startswith("VIOLATION")]
    inc = [k for k, v in c.items() if v.startswith("inconclusive")]
    rows.append(f"| {name} | {m['property']} | {'yes' if m['property'] in caught else 'NO'} | {' '.join(caught) or '-'} | {' '.join(inc) or '-'} |")
open(f"{root}/seeded/RESULTS.md", "w").write("# Seeded defects vs. quick checks (seed 1)\n\n| seeded defect | breaks | caught by its own check | all checks reporting a violation | inconclusive |\n|---|---|---|---|---|\n" + "\n".join(rows) + "\n")
PY
