#!/usr/bin/env python3
"""Refresh `confirmed_by_me` in seeded/*-r3-*/meta.json from /tmp/mut/<Cxx>r4.verify.log."""
import json, glob, os
for mp in glob.glob('/verif/seeded/*-r3-*/meta.json'):
    m = json.load(open(mp)); p = m['property']
    log = f'/tmp/mut/{p}r4.verify.log'
    if os.path.exists(log):
        m['confirmed_by_me'] = open(log).read().strip().splitlines()
        json.dump(m, open(mp, 'w'), indent=1)
        print(os.path.basename(os.path.dirname(mp)), m['confirmed_by_me'][-1] if m['confirmed_by_me'] else '')
