#!/bin/bash
# Run every check of a tier at a given seed; print one line per check.
# usage: tools/run_all.sh [quick|thorough] [seed]
cd "$(dirname "$0")/.."
TIER="${1:-quick}"; SEED="${2:-1}"
for i in 01 02 03 04 05 06 07 08 09 10 11 12 13 14 15 16 17 18; do
  s=$(date +%s.%N)
  out=$(VERIF_SEED=$SEED ./check C$i $TIER 2>&1); rc=$?
  e=$(date +%s.%N)
  printf "C%s %s seed=%s exit=%s %.1fs %s\n" $i $TIER $SEED $rc $(echo "$e - $s" | bc) "$(echo "$out" | grep -E '^(VIOLATION|INCONCLUSIVE|KNOWN-FINDING)' | cut -c1-120 | head -3 | tr '\n' '|')"
done
