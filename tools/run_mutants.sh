#!/bin/bash
# For every mutants/<Cxx>_*.patch: apply to /repo, run the named property's quick check
# (plus any extra checks given after the patch name in mutants/extra.txt), undo.
cd "$(dirname "$0")/.."
OUT=mutants/RESULTS.md
echo "# Hand-written mutants vs. quick checks (seed ${VERIF_SEED:-1})" > $OUT
echo >> $OUT
echo "| mutant | what | check | result |" >> $OUT
echo "|---|---|---|---|" >> $OUT
for p in mutants/*.patch; do
  n=$(basename $p .patch); c=${n%%_*}
  note=$(cat mutants/$n.note)
  if ! git -C /repo diff --quiet; then echo "/repo dirty"; exit 2; fi
  if ! git -C /repo apply "$PWD/$p" 2>/dev/null; then echo "| $n | $note | $c | PATCH DOES NOT APPLY |" >> $OUT; continue; fi
  res=$(./check $c quick 2>&1); rc=$?
  git -C /repo checkout -- .
  sig=$(echo "$res" | grep -E "^  signature:" | head -1 | sed 's/^  signature: //' | cut -c1-110)
  inc=$(echo "$res" | grep -E "^INCONCLUSIVE" | head -1 | cut -c1-110)
  case $rc in 1) r="CAUGHT: $sig";; 0) r="missed (exit 0)";; *) r="exit $rc $inc";; esac
  echo "| $n | $note | $c | $r |" >> $OUT
  echo "$n -> $r"
done
