#!/bin/bash
# Auxiliary sanitizer legs (DESIGN.md section 6) for one property: the same oracles, on
# small workloads, executed by Miri (UB / aliasing / uninitialised memory in the library and
# its `unsafe`-using dependencies) and valgrind memcheck (release binary).
# Prints one line per run:  SAN <tool> <workload> <seed> <ok|REPORT|skipped> <detail>
# usage: tools/sanitizers.sh <C05|C07|C10> [seed]
ROOT="$(cd "$(dirname "$0")/.." && pwd)"
P="$1"; SEED="${2:-1}"
case "$P" in C05) W=c05; MN=40; VN=1500;; C07) W=c07; MN=6; VN=400;; C10) W=c10; MN=6; VN=1500;; *) exit 0;; esac
export CARGO_NET_OFFLINE=true
cd "$ROOT/harness"
TMP=$(mktemp -d /dev/shm/mrl-san.XXXXXX); trap 'rm -rf $TMP' EXIT
# ---- Miri: 8 seeds in parallel, one interpreter each
if cargo +nightly miri --version >/dev/null 2>&1; then
  export MIRIFLAGS="-Zmiri-disable-isolation"
  # build once (quietly), then run the seeds in parallel
  CARGO_TARGET_DIR="$ROOT/target/miri" timeout 1200 cargo +nightly miri run --offline --quiet -- __aux $W 0 1 >$TMP/miri.build 2>&1
  for s in 1 2 3 4 5 6 7 8; do
    ( CARGO_TARGET_DIR="$ROOT/target/miri" timeout 3000 cargo +nightly miri run --offline --quiet -- __aux $W $((SEED*100+s)) $MN >$TMP/miri.$s 2>&1; echo $? >$TMP/miri.$s.rc ) &
  done
  wait
  for s in 1 2 3 4 5 6 7 8; do
    rc=$(cat $TMP/miri.$s.rc 2>/dev/null || echo 99)
    if grep -q "^AUX-OK" $TMP/miri.$s 2>/dev/null && [ "$rc" = 0 ]; then echo "SAN miri $W $((SEED*100+s)) ok $(grep '^AUX-OK' $TMP/miri.$s | cut -d' ' -f4-)"
    elif [ "$rc" = 124 ]; then echo "SAN miri $W $((SEED*100+s)) skipped timeout"
    else echo "SAN miri $W $((SEED*100+s)) REPORT $(grep -E 'error: Undefined Behavior|error:|AUX-FAIL' $TMP/miri.$s | head -2 | tr '\n' ' ' | cut -c1-300)"; fi
  done
else
  echo "SAN miri $W - skipped miri-not-installed"
fi
# ---- valgrind memcheck on the release binary
if command -v valgrind >/dev/null 2>&1 && [ -x "$ROOT/target/release/mrl-verif" ]; then
  for s in 1 2 3 4; do
    ( timeout 3000 valgrind -q --error-exitcode=9 --errors-for-leak-kinds=none --leak-check=no "$ROOT/target/release/mrl-verif" __aux $W $((SEED*100+s)) $VN >$TMP/vg.$s 2>&1; echo $? >$TMP/vg.$s.rc ) &
  done
  wait
  for s in 1 2 3 4; do
    rc=$(cat $TMP/vg.$s.rc 2>/dev/null || echo 99)
    if grep -q "^AUX-OK" $TMP/vg.$s 2>/dev/null && [ "$rc" = 0 ]; then echo "SAN memcheck $W $((SEED*100+s)) ok $(grep '^AUX-OK' $TMP/vg.$s | cut -d' ' -f4-)"
    elif [ "$rc" = 124 ]; then echo "SAN memcheck $W $((SEED*100+s)) skipped timeout"
    else echo "SAN memcheck $W $((SEED*100+s)) REPORT rc=$rc $(grep -E '==[0-9]+==|AUX-FAIL' $TMP/vg.$s | head -3 | tr '\n' ' ' | cut -c1-300)"; fi
  done
else
  echo "SAN memcheck $W - skipped valgrind-or-binary-missing"
fi
