#!/usr/bin/env python3
"""Write the task files for one round of seeded-defect sub-agents.
usage: seed_round.py <scratch dir, e.g. /tmp/mut7> [Cxx ...]
Each agent gets ONLY <dir>/<Cxx>.task.md, <dir>/<Cxx>.property.json (the text of the property) and the
scratch worktree <dir>/<Cxx>; nothing from /verif.  The one-line descriptions of earlier seeded defects
are included so that a new round does not repeat them."""
import json, glob, sys

root = sys.argv[1]
only = sys.argv[2:]
prev = {}
for mp in sorted(glob.glob('/verif/seeded/*/meta.json')):
    m = json.load(open(mp))
    prev.setdefault(m['property'], []).append(m['what'])

HINTS = {
 'C01': "the Drop / clean-shutdown path (what is flushed when the log is dropped under each policy); `MemQueue::with_next_position` and `ack_position` when the queue already holds records; positions and `start_position` bookkeeping of a queue emptied by truncate then appended to at an explicit position; anything that only differs after the SECOND restart",
 'C02': "the writer's resume position after recovery (`into_writer`, `forward`, padding decisions right after open); a crash inside create_queue / delete_queue (not truncate / append); a torn write whose prefix ends inside a 7-byte frame header or exactly at a block end; stale bytes behind the resume point",
 'C03': "explicit `persist(Flush)` vs `persist(FlushAndFsync)`; OnDelay interval arithmetic and `update_persisted`; the fsync of the DIRECTORY after a roll-over or after a GC unlink; a persist that is skipped because an internal 'dirty' notion is wrong after roll-over",
 'C04': "`create_queue` of a name deleted earlier in the same session (new incarnation is allowed to restart - stay within one incarnation); the position after `truncate(..=u64::MAX)`; `append` with Some(pos) == next exactly across a restart; position bookkeeping of a queue whose records were all evicted by a truncate BELOW its last position + 1",
 'C05': "`last_record`, `last_position` / `current_position`, `summary()` fields, `queue_exists`, `list_queues` after delete + re-create; `range(a..=b)` with a > b or a == b; truncate at exactly last position + 1; results right after open for queues known only through position records",
 'C06': "the loop in `Directory::gc` / `FileTracker::take_first_unused` (termination condition, 'never delete the current file'); reference counts when `delete_queue` removes a queue holding records in the CURRENT file; GC when the first file is also the current file; a file number reference cloned and kept in a long-lived struct",
 'C07': "the serialisation of the entry itself (name length u16, position u64, per-record length u32) at boundary values: names of 1 / 255 / 256 / 65535 bytes, payloads of 0 bytes, batches with thousands of empty payloads; `MultiRecord` iteration over a buffer; the `Buf` chained-chunk path of `append_records` (payload given as several chunks)",
 'C08': "the `block_corrupted` flag across a block boundary; a frame whose length reaches exactly the block end; a header accepted although fewer than 7 bytes were left; re-synchronisation after a corrupt frame landing inside zero padding followed by stale bytes",
 'C09': "what follows a corrupt frame in the LAST frame slot of a FILE; corruption in the very first frame of the very first file; entries of OTHER queues in the same block behind the damaged frame; a damaged frame of a create_queue entry whose queue later receives appends at automatic positions",
 'C10': "allocation sized from an untrusted length (`Vec::with_capacity`, `reserve`, `resize`); panics in `Drop` or in read accessors after a damaged-but-accepted open; arithmetic on positions / lengths / file numbers (0, u64::MAX, huge gaps); directory content: 1-byte file in the middle of the run, 20-digit number overflowing u64, thousands of files",
 'C11': "errors from `metadata()` / `file_type()` / `seek` while listing or sizing files at open; a read returning Ok(0) before the block is complete (short file) vs an error; `read_exact` replaced by a manual loop that mishandles one ErrorKind; an error on the LAST file mapped to 'log ends here'",
 'C12': "crash points: the BufWriter splitting one entry into several write() calls, roll-over in the middle of a batch; `MultiRecord::new` validation at replay accepting a buffer with trailing garbage or a truncated last record; a batch whose first record is applied before the rest is validated",
 'C13': "error paths: create_queue(AlreadyExists), delete/truncate/append on a missing queue, append Past - look for state left in the queue map (entry API inserting defaults), in `next_persist`, in the writer (bytes already handed to the BufWriter before the check), in the spare buffer's capacity; a no-op truncate (position below start) that still runs GC or writes",
 'C14': "anything keyed on the policy or on elapsed time that leaks into LOGICAL results (returned positions, errors, evicted counts, queue contents, list_queues); GC or position recording conditional on whether a persist happened or is due; a code path taken only by OnDelay when the delay elapses inside a call; explicit persist() resetting something logical",
 'C15': "create_queue / delete_queue / truncate byte counts; padding at the end of a FILE (not just of a block); an entry split into First / Middle / Last (three headers); counts when the BufWriter is bypassed for large frames; the first call after open",
 'C16': "memory_allocated_bytes: `RollingBuffer` capacity growth / shrink thresholds, `Vec<RecordMeta>` capacity, capacity released too eagerly (used > allocated transiently) or never; per-queue name accounting on delete + re-create; `summary()` per-queue numbers vs the totals",
 'C17': "the name of the file created at roll-over (width / zero padding of the number when it grows), the path computed at GC; a directory entry whose name is not valid UTF-8; hidden files `.wal-...`; names differing only in case or with leading/trailing spaces; anything created next to the WAL files",
 'C18': "shared state between queues: the spare / scratch buffers reused across calls; file-reference bookkeeping when two queues have records in the same file and one is truncated or deleted; `summary()` / `last_record` of queue B after operations on A; B's positions after A's truncate-into-the-future triggers GC",
}

for i in range(1, 19):
    p = f"C{i:02d}"
    if only and p not in only:
        continue
    used = "\n".join(f"   - {w}" for w in prev.get(p, []))
    t = f"""# Task: seed a defect that breaks property {p}

You are helping test a verification framework by writing a *seeded defect* for a Rust library.
Work ONLY inside the git worktree {root}/{p} (a checkout of quickwit-oss/mrecordlog: a multiplexed
write-ahead record log; many named queues share rolling WAL files `wal-<20 digits>` made of CRC-framed
32 KiB blocks; in-memory queues; truncation; file GC). Do NOT read or touch /verif or /repo, and do not look
outside {root}/{p} (except for the Rust toolchain and this task file). There is no network: always use
`cargo ... --offline`.

The property to break is in {root}/{p}.property.json (read it: statement, quantifier, anchors).

Steps:
1. Read the relevant sources under {root}/{p}/src.
2. Make a SMALL (a few lines), realistic change to the LIBRARY source (src/**, not tests) that breaks the
   property for SOME input / history / crash point / fault, while the crate still compiles and the existing
   test suite still passes unedited: `cd {root}/{p} && cargo test --offline --lib 2>&1 | tail -8`
   (takes 2-3 minutes; 66 tests must pass; run it at least twice, one of the tests is randomised).
3. These ideas were ALREADY USED by earlier attempts - do NOT reuse them or close variants:
{used}
   Find something clearly different, in a different function if possible, and as SUBTLE as you can: the
   defect must only show under a rare, specific combination and must not be exposed by simple use.
   Directions worth considering for this property: {HINTS[p]}.
   Earlier attempts concentrated on the replay loop, GC ordering and the frame reader: prefer other places if the
   property allows it - the in-memory queue (`src/mem`), the rolling buffer, record (de)serialisation in
   `src/record.rs`, the writer's BufWriter / offset bookkeeping, persist-policy state, summary / resource-usage code.
   Defects whose effect only shows through a second-order observation are especially welcome: a LATER call that
   behaves differently, timing / policy state, resource accounting, what a crash image contains, or the interplay of
   two features (explicit persist + policy; explicit positions + truncation; restart + GC; long names + roll-over;
   empty payloads + batches; delete + re-create of a queue).
   A plausible maintainer mistake (refactor, "optimisation", tidy-up, boundary condition) is ideal.
4. Write a demonstration that FAILS with your change and PASSES without it. Preferably a Rust integration test
   {root}/{p}/tests/seeded_demo.rs using the public API of `mrecordlog` + `tempfile` (already a
   dev-dependency), gated with `#![cfg(feature = "verif")]` and run with
   `cargo test --offline --features verif --test seeded_demo`. With the cargo feature `verif`, WAL files are
   4 blocks = 128 KiB (pre-sized, zero-filled) instead of 128 MiB, so ~40 KiB appends roll over every 3 appends
   and truncations trigger GC; `mrecordlog::verif_hooks::{{FrameWriter, RecordWriter, RecordReader}}` are also
   exported. Format facts: frame = crc32(type byte ++ payload) LE | len u16 LE | type u8 (1 Full, 2 First,
   3 Middle, 4 Last) | payload; frames never cross a 32768-byte block; fewer than 7 bytes left in a block are
   zero-padded; create/truncate/delete/position entries are 11 + name_len bytes, an append entry is
   11 + name_len + sum(12 + payload_len). A process crash can be simulated by copying the WAL directory while
   the log is open (default policy flushes every call) and editing the COPY (zero a suffix of the last written
   region / delete a just-created file) before opening it. If real I/O failures or fsync behaviour are needed,
   write a small LD_PRELOAD C shim (gcc is available) under {root}/{p}/demo/ plus an example program under
   {root}/{p}/examples/seeded_demo.rs and a script {root}/{p}/demo/run.sh that exits non-zero with the
   change and zero without it.
   Verify BOTH states: with the change applied; then `git diff -- src > my.diff && git checkout -- src`, run
   again (must pass), then `git apply my.diff`. Do NOT use `git stash`: the stash is shared by all worktrees.
5. Leave the worktree with your change applied (uncommitted) and save the patch:
   `cd {root}/{p} && git diff -- src > {root}/{p}/seeded_patch.diff`.
   Use a scratch CARGO_TARGET_DIR inside {root}/{p} only; keep the worktree's build output small.

Final message: the patch (inline), exactly what is needed for the defect to manifest, the commands you ran and
their results (existing suite with the change; demo with and without the change). If an idea is caught by the
existing tests, try another one.
"""
    open(f"{root}/{p}.task.md", "w").write(t)
    print("wrote", f"{root}/{p}.task.md")
