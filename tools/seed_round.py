#!/usr/bin/env python3
"""Write the task files for one round of seeded-defect sub-agents.
usage: seed_round.py <scratch dir, e.g. /tmp/mut7> [Cxx ...]
Each agent gets ONLY <dir>/<Cxx>.task.md, <dir>/<Cxx>.property.json (the text of the property) and the
scratch worktree <dir>/<Cxx>; nothing from /verif.  The one-line descriptions of earlier seeded defects
are included so that a new round does not repeat them."""
import json, glob, sys

root = sys.argv[1]
only = sys.argv[2:]
prev = {}
for mp in sorted(glob.glob('/verif/seeded/*/meta.json')):
    m = json.load(open(mp))
    prev.setdefault(m['property'], []).append(m['what'])

HINTS = {
 'C01': "anything that makes the state after the SECOND restart differ although the first one was fine; state rebuilt at replay (file references, start positions, record metadata) that differs from the live one in a way only a later truncate/GC + restart exposes; queues whose only trace is a RecordPosition entry written by the open-time GC; payload-less (empty) records; positions close to u64::MAX",
 'C02': "a crash DURING recovery (open writes position records, fsyncs and unlinks files itself) followed by another open; power loss where a just-created file's directory entry is lost although its data was written; a torn write whose prefix ends inside a frame header; ordering of set_len vs the first write into a new file",
 'C03': "which file descriptor / which file gets the fsync (old vs new file, directory); fsync replaced by flush on one path only (delete_queue, create_queue, truncate, explicit persist, roll-over, open-time GC); OnDelay bookkeeping (`update_persisted`, the instant compared against); persist skipped when the BufWriter happens to be empty although the OS file is dirty",
 'C04': "next position after a sequence involving truncate into the future on an EMPTY queue followed by restart and GC; replay of RecordPosition for a queue that has records; positions after an append rejected as Future followed by an accepted one; positions near u64::MAX (saturating/wrapping arithmetic)",
 'C05': "range() with unusual bounds (Excluded start, Included u64::MAX, start above the last position, start below the first retained one); results right after truncate to exactly the last record; last_record/current_position/summary on queues that were emptied; the Cow borrowed/owned split when a record wraps the ring buffer; ordering of list_queues",
 'C06': "disk_used_bytes bookkeeping (a counter updated incrementally rather than recomputed); GC after truncate on a queue that has no records in the oldest file while ANOTHER queue was deleted earlier; a file kept because a RecordMeta keeps a file handle after its records were evicted; a truncate that evicts records up to exactly a file boundary",
 'C07': "the READ side rather than the write side: entries re-assembled from more than 2 frames when a Middle frame has maximal length; the serialisation of the entry itself (name length u16, position u64, per-record length u32) at boundary values - names of 0/1/255/256/65535 bytes, payloads of 0 bytes, batches with thousands of empty payloads; `MultiRecord` iteration over a buffer with trailing bytes",
 'C08': "stale bytes: a re-used / not-zeroed region behind the write cursor after recovery stopped early (the writer resumes in the middle of a block and old valid frames behind it become reachable later); frames accepted although len exceeds the bytes left in the block; a checksum computed over a different range on the read side for one frame type only",
 'C09': "what happens to the entries AFTER the damaged one: the reader's state after a corrupt frame in the last frame slot of a block; a damaged Last frame followed by a Full frame; damage in the first frame of a FILE (not just of a block); damage to an entry whose effect is idempotent vs not; `within_record` / partial-entry buffer not cleared in one path",
 'C10': "arithmetic on untrusted numbers at replay: positions (u64::MAX, 0), lengths, truncate positions far in the future or past, RecordPosition lower than existing records, AppendRecords at a position below the queue's start; directory content: a file name with 20 digits that overflows u64, two files whose numbers differ by a huge gap, a zero-length or 1-byte file in the middle of the run",
 'C11': "an error on open()/read() of the LAST file, or of a file in the middle, that is mapped to 'no more data'; errors from metadata/len/seek calls used while sizing files at open; an error returned by read after a partial block was already consumed; directory listing errors after some entries were returned; ErrorKind-specific handling (Interrupted, NotFound, PermissionDenied, UnexpectedEof synthesised from a short file)",
 'C12': "the REPLAY side: records of a batch applied one by one with an early exit / `?` / `continue` that skips the rest silently (a record 'in the past', a duplicate position, an empty payload); a batch with explicit position that partially overlaps positions already present after a crash; validation of the batch done lazily while iterating",
 'C13': "rejected calls: append at a Past/Future position, append to a missing queue, create_queue of an existing one, delete/truncate of a missing one - look for side effects on the spare/serialisation buffers, on `next_persist` timing state, on the in-memory queue map (entry API inserting defaults), on file handles; no-op truncate (position below start) that still writes/persists",
 'C14': "anything keyed on the policy or on elapsed time that leaks into LOGICAL results (returned positions, errors, evicted counts, queue contents, list_queues, positions in summaries); GC or position recording made conditional on whether a persist happened or is due; a code path taken only by OnDelay when the delay elapses inside a call; explicit persist() resetting something logical",
 'C15': "the accounting of padding and headers when an entry is split over frames: off-by-one when a frame ends exactly at a block end; bytes written by a roll-over (nothing is written into the file by set_len); the count returned by truncate when GC re-records positions and THAT rolls over; append with explicit position on an empty queue",
 'C16': "memory_used vs memory_allocated after: delete_queue, truncate of everything, truncate into the future, re-creation of a queue, many tiny queues; the ring buffer's shrink/grow policy (capacity never released after a burst, or released too eagerly so used > allocated transiently); summary()'s per-queue numbers disagreeing with the totals",
 'C17': "how names are built and parsed: width/zero padding of the number, prefix/suffix matching (`starts_with` without length check, extra extension), case; what is unlinked at GC or open (names computed rather than remembered); anything created next to the WAL files (temp, lock, marker) or any path joined from untrusted directory entries",
 'C18': "shared state between queues: the spare buffer / scratch Vec reused across calls; file-reference bookkeeping when two queues have records in the same file and one is truncated; summary() of queue B after operations on A; replay of a delete_queue(A) entry when B was created later with A's name as a prefix; positions of B after A's truncate into the future triggers GC",
}

for i in range(1, 19):
    p = f"C{i:02d}"
    if only and p not in only:
        continue
    used = "\n".join(f"   - {w}" for w in prev.get(p, []))
    t = f"""# Task: seed a defect that breaks property {p}

You are helping test a verification framework by writing a *seeded defect* for a Rust library.
Work ONLY inside the git worktree {root}/{p} (a checkout of quickwit-oss/mrecordlog: a multiplexed
write-ahead record log; many named queues share rolling WAL files `wal-<20 digits>` made of CRC-framed
32 KiB blocks; in-memory queues; truncation; file GC). Do NOT read or touch /verif or /repo, and do not look
outside {root}/{p} (except for the Rust toolchain and this task file). There is no network: always use
`cargo ... --offline`.

The property to break is in {root}/{p}.property.json (read it: statement, quantifier, anchors).

Steps:
1. Read the relevant sources under {root}/{p}/src.
2. Make a SMALL (a few lines), realistic change to the LIBRARY source (src/**, not tests) that breaks the
   property for SOME input / history / crash point / fault, while the crate still compiles and the existing
   test suite still passes unedited: `cd {root}/{p} && cargo test --offline --lib 2>&1 | tail -8`
   (takes 2-3 minutes; 66 tests must pass; run it at least twice, one of the tests is randomised).
3. These ideas were ALREADY USED by earlier attempts - do NOT reuse them or close variants:
{used}
   Find something clearly different, in a different function if possible, and as SUBTLE as you can: the
   defect must only show under a rare, specific combination and must not be exposed by simple use.
   Directions worth considering for this property: {HINTS[p]}.
   A plausible maintainer mistake (refactor, "optimisation", tidy-up, boundary condition) is ideal.
4. Write a demonstration that FAILS with your change and PASSES without it. Preferably a Rust integration test
   {root}/{p}/tests/seeded_demo.rs using the public API of `mrecordlog` + `tempfile` (already a
   dev-dependency), gated with `#![cfg(feature = "verif")]` and run with
   `cargo test --offline --features verif --test seeded_demo`. With the cargo feature `verif`, WAL files are
   4 blocks = 128 KiB (pre-sized, zero-filled) instead of 128 MiB, so ~40 KiB appends roll over every 3 appends
   and truncations trigger GC; `mrecordlog::verif_hooks::{{FrameWriter, RecordWriter, RecordReader}}` are also
   exported. Format facts: frame = crc32(type byte ++ payload) LE | len u16 LE | type u8 (1 Full, 2 First,
   3 Middle, 4 Last) | payload; frames never cross a 32768-byte block; fewer than 7 bytes left in a block are
   zero-padded; create/truncate/delete/position entries are 11 + name_len bytes, an append entry is
   11 + name_len + sum(12 + payload_len). A process crash can be simulated by copying the WAL directory while
   the log is open (default policy flushes every call) and editing the COPY (zero a suffix of the last written
   region / delete a just-created file) before opening it. If real I/O failures or fsync behaviour are needed,
   write a small LD_PRELOAD C shim (gcc is available) under {root}/{p}/demo/ plus an example program under
   {root}/{p}/examples/seeded_demo.rs and a script {root}/{p}/demo/run.sh that exits non-zero with the
   change and zero without it.
   Verify BOTH states: with the change applied; then `git stash push -- src`, run again (must pass), then
   `git stash pop`.
5. Leave the worktree with your change applied (uncommitted) and save the patch:
   `cd {root}/{p} && git diff -- src > {root}/{p}/seeded_patch.diff`.
   Use a scratch CARGO_TARGET_DIR inside {root}/{p} only; keep the worktree's build output small.

Final message: the patch (inline), exactly what is needed for the defect to manifest, the commands you ran and
their results (existing suite with the change; demo with and without the change). If an idea is caught by the
existing tests, try another one.
"""
    open(f"{root}/{p}.task.md", "w").write(t)
    print("wrote", f"{root}/{p}.task.md")
