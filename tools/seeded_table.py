#!/usr/bin/env python3
"""Render the table of seeded defects (seeded/*/meta.json) into DESIGN.md between the markers
<!-- SEEDED-TABLE-BEGIN --> and <!-- SEEDED-TABLE-END -->, and into seeded/RESULTS.md."""
import json, glob, os, re
root = os.path.dirname(os.path.dirname(os.path.abspath(__file__)))
rows = []
for mp in sorted(glob.glob(f"{root}/seeded/*/meta.json")):
    m = json.load(open(mp)); name = os.path.basename(os.path.dirname(mp))
    c = m.get("caught_by_quick_checks", {})
    caught = [k for k, v in c.items() if v.startswith("VIOLATION")]
    own = m["property"]
    if not c:
        own_s, others = "(matrix not run yet)", "-"
    else:
        sig = c.get(own, "")
        own_s = ("yes: `" + sig.replace("VIOLATION: ", "")[:90] + "`") if sig.startswith("VIOLATION") else "**NO** (" + sig[:60] + ")"
        others = " ".join(k for k in caught if k != own) or "-"
    rows.append(f"| `{name}` | {own} | {m['what'][:230]} | {m['needs_to_manifest'][:200]} | {own_s} | {others} |")
table = "| seeded defect | breaks | change | needs, to manifest | caught by its own quick check (seed 1) | also reported by |\n|---|---|---|---|---|---|\n" + "\n".join(rows) + "\n"
open(f"{root}/seeded/RESULTS.md", "w").write("# Seeded defects vs. quick checks (seed 1)\n\nEach patch compiles, passes the repository's 66 tests unedited, and comes with a demonstration that fails with it and passes without it (confirmed independently, see `confirmed_by_me` in each meta.json).\n\n" + table)
d = open(f"{root}/DESIGN.md").read()
b, e = "<!-- SEEDED-TABLE-BEGIN -->", "<!-- SEEDED-TABLE-END -->"
if b in d and e in d:
    d = d[:d.index(b) + len(b)] + "\n" + table + d[d.index(e):]
    open(f"{root}/DESIGN.md", "w").write(d)
print(len(rows), "seeded defects rendered")
