#!/bin/bash
# Apply a patch to /repo, run the given checks (default: all quick), undo the patch.
# usage: tools/try_patch.sh <patch.diff> [tier] [Cxx ...]
set -u
cd "$(dirname "$0")/.."
P="$(realpath "$1")"; shift
TIER="${1:-quick}"; [ $# -gt 0 ] && shift
CHECKS="$*"; [ -z "$CHECKS" ] && CHECKS="C01 C02 C03 C04 C05 C06 C07 C08 C09 C10 C11 C12 C13 C14 C15 C16 C17 C18"
if ! git -C /repo diff --quiet; then echo "/repo has uncommitted changes; refusing"; exit 2; fi
if ! git -C /repo apply "$P"; then echo "patch does not apply"; exit 2; fi
trap 'git -C /repo checkout -- . ; git -C /repo clean -fdq -- src tests 2>/dev/null' EXIT
for c in $CHECKS; do
  out=$(./check $c $TIER 2>&1); rc=$?
  sigs=$(echo "$out" | grep -E "^  signature:" | sort | uniq -c | sort -rn | head -3 | sed 's/^ *//' | tr '\n' ';')
  inc=$(echo "$out" | grep -E "^INCONCLUSIVE" | head -2 | cut -c1-160 | tr '\n' ';')
  echo "$c exit=$rc $sigs $inc"
done
