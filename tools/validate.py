#!/usr/bin/env python3
"""Validate MANIFEST.json and every evidence file against the schemas (python3-vt has jsonschema)."""
import json, glob, sys, jsonschema
ok = True
try:
    jsonschema.validate(json.load(open('/verif/MANIFEST.json')), json.load(open('/root/.vp/MANIFEST.schema.json')))
    print("MANIFEST.json valid")
except Exception as e:
    ok = False; print("MANIFEST.json INVALID:", str(e)[:300])
es = json.load(open('/root/.vp/EVIDENCE.schema.json'))
for f in sorted(glob.glob('/verif/evidence/C*.json')):
    try:
        jsonschema.validate(json.load(open(f)), es); print(f, "valid")
    except Exception as e:
        ok = False; print(f, "INVALID:", str(e)[:300])
sys.exit(0 if ok else 1)
