#!/bin/bash
# Independently confirm a sub-agent's seeded defect in its scratch worktree:
#   existing suite passes with the change; demo fails with it and passes without it.
# usage: tools/verify_seeded.sh <label> [worktree]     -> writes /tmp/mut/<label>.verify.log
ID="$1"; W="${2:-/tmp/mut/$ID}"
mkdir -p /tmp/mut
L="/tmp/mut/$ID.verify.log"
cd "$W" || exit 2
export CARGO_NET_OFFLINE=true
export CARGO_TARGET_DIR="$W/target-verify"
demo() {
  if [ -f tests/seeded_demo.rs ]; then
    cargo test --offline --features verif --test seeded_demo 2>&1 | grep -E "^test result|^test .* (ok|FAILED)" | head -12
  elif [ -x demo/run.sh ]; then
    ./demo/run.sh >/dev/null 2>&1; echo "demo/run.sh exit=$?"
  else
    echo "no demo found"
  fi
}
{
echo "== $ID in $W"
git diff --stat -- src
echo "== existing suite (lib tests) WITH the change"
cargo test --offline --lib 2>&1 | grep -E "^test result|FAILED|panicked" | head -5
echo "== demo WITH the change (expected: FAIL / exit 1)"
demo
git diff -- src > "$W/.verify_patch.diff"; git checkout -q -- src
echo "== demo WITHOUT the change (expected: ok / exit 0)"
demo
git apply "$W/.verify_patch.diff"; rm -f "$W/.verify_patch.diff"
git diff --stat -- src | tail -1
} > "$L" 2>&1
rm -rf "$W/target-verify"
echo "done $ID" >> "$L"
