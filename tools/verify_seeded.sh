#!/bin/bash
# Independently confirm a sub-agent's seeded defect in its scratch worktree:
#   existing suite passes with the change; demo fails with it and passes without it.
# usage: tools/verify_seeded.sh <Cxx> [worktree]     -> writes /tmp/mut/<Cxx>.verify.log
ID="$1"; W="${2:-/tmp/mut/$ID}"
L="/tmp/mut/$ID.verify.log"
cd "$W" || exit 2
export CARGO_NET_OFFLINE=true
{
echo "== $ID in $W"
git diff --stat -- src
echo "== existing suite (lib tests) WITH the change"
cargo test --offline --lib 2>&1 | grep -E "^test result|FAILED|panicked" | head -5
echo "== demo WITH the change (expected: FAIL)"
cargo test --offline --features verif --test seeded_demo 2>&1 | grep -E "^test result|^test .* (ok|FAILED)" | head -12
git stash push -q -- src
echo "== demo WITHOUT the change (expected: ok)"
cargo test --offline --features verif --test seeded_demo 2>&1 | grep -E "^test result|^test .* (ok|FAILED)" | head -12
git stash pop -q
git diff --stat -- src | tail -1
} > "$L" 2>&1
echo "done $ID" >> "$L"
